import GV.Props.C04b
import GV.Driver.Hist
/-
  Definitions and helper lemmas for GV/Props/C09c.lean (C09, third part: the parser never reads the unused high bits of
  the last byte of a bitmap of a ROWS event — real masters leave them SET, the Spec writers clear them).

  Part A (model level): `M.rows` on a rows body whose bitmaps are ANY encodings of the right bits (`BmEnc`, `bodyG`,
          `rows_walkG`); the driver's `D.rowsBodyP pad` is an instance (`rowsBodyP_eq`, `rows_padded`); what the reader can
          tell apart (`BitmapSame`, `RowsSame`, `rowsG_same`, `rows_pad_same`).
  Part B (conversion level): `classify` on the padded packet (`classify_rows_pad`, `classify_pad_eq`), and on any
          encoding with any checksum bytes (`rows_tableG`, `rowsOf_tableG`, `EncOf`, `classify_rows_enc`, `classify_enc_eq`).
  Part C (stream level): `parseEvents` looks at a packet only through `stepEvent` (`parse_map_congr`); an invariant of the
          parser state kept by every served packet (`PInv`, `StepOK`, `stepOK_*`, `stepOK_laid`); what `D.padPacket` does to
          a served packet (`padPacket_other`, `padPacket_rows` under `PadClean`, `padPacket_enc` for well-formed
          histories — through the alignment lemmas `cell_len_det` … `rows_align`, `body_align`); the two ways to the
          requirement `RowsPad` (`rowsPad_of_clean`, `rowsPad_of_wf` / `rowsPad_of_whole`); `pad_lands`, `pad_clean_run`.
-/
namespace GV
namespace C09c
open Bytes M GV.C09R GV.Props.C01 GV.Props.C01b GV.C01c GV.C01d GV.C04b

/-! ## Part A — bitmaps with arbitrary padding bits -/

/-- `b` encodes the bit list `bits`: ⌈n/8⌉ bytes, bit j of the list at byte j/8, position j%8; NOTHING is said about the
    unused high bits of the last byte -/
def BmEnc (bits : List Bool) (b : Bytes) : Prop :=
  b.length = (bits.length + 7) / 8 ∧ ∀ j v, bits[j]? = some v → Bitmap.bit ⟨b, 0⟩ j = .ok v

theorem bmEnc_bit {bits : List Bool} {b : Bytes} (h : BmEnc bits b) (n j : Nat) (v : Bool) (hj : bits[j]? = some v) :
    Bitmap.bit ⟨b, n⟩ j = .ok v := h.2 j v hj

/-- the Spec writer is such an encoding … -/
theorem bmEnc_spec (bits : List Bool) : BmEnc bits (W.bitmapBytes bits) :=
  ⟨C15.bitmapBytes_length bits, fun j v hj => bit_written bits 0 j v hj⟩

/-- … and so is the driver's padded writer, for both values of `pad` -/
theorem bmEnc_bmBytes (pad : Bool) (bits : List Bool) : BmEnc bits (D.bmBytes pad bits) := by
  cases pad with
  | false => simpa [D.bmBytes] using bmEnc_spec bits
  | true =>
    simp only [D.bmBytes, if_true]
    refine ⟨?_, ?_⟩
    · rw [C15.bitmapBytes_length, List.length_append, List.length_replicate]
      omega
    · intro j v hj
      have hlt : j < bits.length := (List.getElem?_eq_some_iff.mp hj).1
      exact bit_written _ 0 j v (by rw [List.getElem?_append_left hlt]; exact hj)

theorem bmBytes_length (pad : Bool) (bits : List Bool) : (D.bmBytes pad bits).length = (bits.length + 7) / 8 :=
  (bmEnc_bmBytes pad bits).1

theorem bmBytes_false (bits : List Bool) : D.bmBytes false bits = W.bitmapBytes bits := by simp [D.bmBytes]

theorem bitCountAux_enc {bits : List Bool} {b : Bytes} (h : BmEnc bits b) (n : Nat) : ∀ i, i ≤ bits.length →
    Bitmap.bitCountAux ⟨b, n⟩ i = .ok ((bits.take i).count true) := by
  intro i
  induction i with
  | zero => intro _; simp [Bitmap.bitCountAux]
  | succ i ih =>
    intro hi
    have hlt : i < bits.length := by omega
    have hb := bmEnc_bit h n i bits[i] (List.getElem?_eq_getElem hlt)
    simp only [Bitmap.bitCountAux, ih (by omega), hb, Res.ok_bind, Res.pure_eq]
    rw [List.take_succ_eq_append_getElem hlt, List.count_append]
    cases bits[i] <;> simp

/-- `bitCount` counts the first `count` bits only: whatever the padding, it is the number of set bits of the list -/
theorem bitCount_enc {bits : List Bool} {b : Bytes} (h : BmEnc bits b) :
    Bitmap.bitCount ⟨b, bits.length⟩ = .ok (bits.count true) := by
  unfold Bitmap.bitCount
  rw [bitCountAux_enc h _ _ (Nat.le_refl _), List.take_length]

theorem newBitmap_enc (pre rest b : Bytes) (cnt pos : Nat) (hl : b.length = (cnt + 7) / 8) (hp : pos = pre.length) :
    newBitmap (pre ++ (b ++ rest)) pos cnt = .ok (⟨b, cnt⟩, pos + b.length) := by
  subst hp
  simp only [newBitmap]
  rw [slice_mid' pre b rest _ _ rfl (by rw [hl])]
  simp [hl]

/-- the three steps of the rows loop on one image whose NULL bitmap is any encoding of the NULL pattern -/
theorem img_factsG (allCols : List (W.ColDef × Bool)) (ps : List Bool) (hp : ps.length = allCols.length)
    (vals : List (Option W.CellVal)) (hok : ImgOK (W.selectPresent ps allCols) vals) (pre rest : Bytes) (num n : Nat)
    (hnum : num = vals.length) (eP nb : Bytes) (hP : BmEnc ps eP) (hN : BmEnc (vals.map (·.isNone)) nb) (data : Bytes)
    (hdata : data = pre ++ ((nb ++ cellsOf (W.selectPresent ps allCols) vals) ++ rest)) :
    let tm : TableMap := { flags := 0, database := [], name := [], types := allCols.map (fun c => UInt8.ofNat c.1.typ),
                           canBeNull := ⟨[], 0⟩, metadata := allCols.map (fun c => c.1.md) }
    let cells := cellsOf (W.selectPresent ps allCols) vals
    newBitmap data pre.length num = .ok (⟨nb, num⟩, pre.length + nb.length) ∧
    skipImage data tm ⟨eP, n⟩ ⟨nb, num⟩ allCols.length 0 0 (pre.length + nb.length)
      = .ok (pre.length + nb.length + cells.length) ∧
    data.slice (pre.length + nb.length) (pre.length + nb.length + cells.length) = .ok cells ∧
    pre.length + nb.length + cells.length = (pre ++ (nb ++ cells)).length := by
  intro tm cells
  subst hdata
  refine ⟨?_, ?_, ?_, ?_⟩
  · rw [List.append_assoc]
    exact newBitmap_enc pre _ nb num _ (by rw [hN.1, hnum, List.length_map]) rfl
  · have := skip_gen tm ⟨eP, n⟩ ⟨nb, num⟩ rest allCols ps vals 0 0 (pre ++ nb) hp hok
      (by intro j b hj; rw [Nat.zero_add]; exact bmEnc_bit hP _ _ _ hj)
      (by intro j col hj; rw [Nat.zero_add]; simp [tm, Bytes.get, hj])
      (by intro j v hj; rw [Nat.zero_add]; exact bmEnc_bit hN _ _ _ (by simp [hj]))
    simpa only [List.append_assoc, List.length_append] using this
  · have := slice_mid (pre ++ nb) cells rest
    simpa only [List.append_assoc, List.length_append] using this
  · simp only [List.length_append, Nat.add_assoc]

/-- a row together with the bytes of its two NULL bitmaps -/
abbrev RowG := RowV × Bytes × Bytes

def rowBytesG (hi hd : Bool) (selB selA : List (W.ColDef × Bool)) (x : RowG) : Bytes :=
  (if hi then x.2.1 ++ cellsOf selB x.1.1 else []) ++ (if hd then x.2.2 ++ cellsOf selA x.1.2 else [])

def mkRowG (hi hd : Bool) (selB selA : List (W.ColDef × Bool)) (numId numData : Nat) (x : RowG) : Row :=
  ⟨if hi then ⟨x.2.1, numId⟩ else emptyBitmap, if hd then ⟨x.2.2, numData⟩ else emptyBitmap,
   if hi then cellsOf selB x.1.1 else [], if hd then cellsOf selA x.1.2 else []⟩

/-- the NULL bitmaps of `x` encode the NULL patterns of its images -/
def RowEnc (hi hd : Bool) (x : RowG) : Prop :=
  (hi = true → BmEnc (x.1.1.map (·.isNone)) x.2.1) ∧ (hd = true → BmEnc (x.1.2.map (·.isNone)) x.2.2)

theorem loop_genG (allCols : List (W.ColDef × Bool)) (pb pa : List Bool) (hpb : pb.length = allCols.length)
    (hpa : pa.length = allCols.length) (hi hd : Bool) (idCols dataCols : Bitmap) (numId numData : Nat)
    (hid : hi = true → BmEnc pb idCols.data ∧ numId = (W.selectPresent pb allCols).length)
    (hdt : hd = true → BmEnc pa dataCols.data ∧ numData = (W.selectPresent pa allCols).length) :
    ∀ (rows : List RowG),
      (∀ r ∈ rows, (hi = true → ImgOK (W.selectPresent pb allCols) r.1.1) ∧
                   (hd = true → ImgOK (W.selectPresent pa allCols) r.1.2)) →
      (∀ r ∈ rows, RowEnc hi hd r) →
      (∀ r ∈ rows, 0 < (rowBytesG hi hd (W.selectPresent pb allCols) (W.selectPresent pa allCols) r).length) →
      ∀ (pre : Bytes) (fuel : Nat), rows.length < fuel →
      rowsLoop (pre ++ rows.flatMap (rowBytesG hi hd (W.selectPresent pb allCols) (W.selectPresent pa allCols)))
        { flags := 0, database := [], name := [], types := allCols.map (fun c => UInt8.ofNat c.1.typ),
          canBeNull := ⟨[], 0⟩, metadata := allCols.map (fun c => c.1.md) }
        hi hd allCols.length idCols dataCols numId numData fuel pre.length
        = .ok (rows.map (mkRowG hi hd (W.selectPresent pb allCols) (W.selectPresent pa allCols) numId numData)) := by
  intro rows
  induction rows with
  | nil =>
    intro _ _ _ pre fuel hf
    cases fuel with
    | zero => omega
    | succ fuel => simp [rowsLoop]
  | cons r rows ih =>
    intro hok henc hwide pre fuel hf
    cases fuel with
    | zero => omega
    | succ fuel =>
      have hok' := fun r hr => hok r (List.mem_cons_of_mem _ hr)
      have henc' := fun r hr => henc r (List.mem_cons_of_mem _ hr)
      have hwide' := fun r hr => hwide r (List.mem_cons_of_mem _ hr)
      have hokr := hok r List.mem_cons_self
      have hencr := henc r List.mem_cons_self
      have hw := hwide r List.mem_cons_self
      have hlt : pre.length < (pre ++ (r :: rows).flatMap
          (rowBytesG hi hd (W.selectPresent pb allCols) (W.selectPresent pa allCols))).length := by
        simp only [List.flatMap_cons, List.length_append]; omega
      rw [rowsLoop, if_pos hlt]
      obtain ⟨idb, idc⟩ := idCols
      obtain ⟨dtb, dtc⟩ := dataCols
      cases hi with
      | false =>
        cases hd with
        | false => simp [rowBytesG] at hw
        | true =>
          obtain ⟨e1, e2⟩ := hdt rfl
          simp only at e1
          have hokA := hokr.2 rfl
          have hD : pre ++ (r :: rows).flatMap (rowBytesG false true (W.selectPresent pb allCols) (W.selectPresent pa allCols))
              = pre ++ ((r.2.2 ++ cellsOf (W.selectPresent pa allCols) r.1.2) ++
                rows.flatMap (rowBytesG false true (W.selectPresent pb allCols) (W.selectPresent pa allCols))) := by
            simp [rowBytesG]
          rw [hD]
          obtain ⟨f1, f2, f3, f4⟩ := img_factsG allCols pa hpa r.1.2 hokA pre
            (rows.flatMap (rowBytesG false true (W.selectPresent pb allCols) (W.selectPresent pa allCols)))
            numData dtc (by rw [e2]; exact hokA.1) dtb r.2.2 e1 (hencr.2 rfl) _ rfl
          simp only [Bool.false_eq_true, ↓reduceIte, Res.pure_eq, Res.ok_bind, f1, f2, f3]
          rw [f4]
          have := ih hok' henc' hwide' (pre ++ (r.2.2 ++ cellsOf (W.selectPresent pa allCols) r.1.2)) fuel (by simpa using hf)
          simp only [List.append_assoc] at this ⊢
          simp only [this, Res.ok_bind, List.map_cons, mkRowG, Bool.false_eq_true, ↓reduceIte]
      | true =>
        obtain ⟨e1, e2⟩ := hid rfl
        simp only at e1
        have hokB := hokr.1 rfl
        cases hd with
        | false =>
          have hD : pre ++ (r :: rows).flatMap (rowBytesG true false (W.selectPresent pb allCols) (W.selectPresent pa allCols))
              = pre ++ ((r.2.1 ++ cellsOf (W.selectPresent pb allCols) r.1.1) ++
                rows.flatMap (rowBytesG true false (W.selectPresent pb allCols) (W.selectPresent pa allCols))) := by
            simp [rowBytesG]
          rw [hD]
          obtain ⟨f1, f2, f3, f4⟩ := img_factsG allCols pb hpb r.1.1 hokB pre
            (rows.flatMap (rowBytesG true false (W.selectPresent pb allCols) (W.selectPresent pa allCols)))
            numId idc (by rw [e2]; exact hokB.1) idb r.2.1 e1 (hencr.1 rfl) _ rfl
          simp only [Bool.false_eq_true, ↓reduceIte, Res.pure_eq, Res.ok_bind, f1, f2, f3]
          rw [f4]
          have := ih hok' henc' hwide' (pre ++ (r.2.1 ++ cellsOf (W.selectPresent pb allCols) r.1.1)) fuel (by simpa using hf)
          simp only [List.append_assoc] at this ⊢
          simp only [this, Res.ok_bind, List.map_cons, mkRowG, Bool.false_eq_true, ↓reduceIte]
        | true =>
          obtain ⟨g1, g2⟩ := hdt rfl
          simp only at g1
          have hokA := hokr.2 rfl
          have hD : pre ++ (r :: rows).flatMap (rowBytesG true true (W.selectPresent pb allCols) (W.selectPresent pa allCols))
              = pre ++ ((r.2.1 ++ cellsOf (W.selectPresent pb allCols) r.1.1) ++
                ((r.2.2 ++ cellsOf (W.selectPresent pa allCols) r.1.2) ++
                rows.flatMap (rowBytesG true true (W.selectPresent pb allCols) (W.selectPresent pa allCols)))) := by
            simp [rowBytesG]
          rw [hD]
          obtain ⟨f1, f2, f3, f4⟩ := img_factsG allCols pb hpb r.1.1 hokB pre
            ((r.2.2 ++ cellsOf (W.selectPresent pa allCols) r.1.2) ++
              rows.flatMap (rowBytesG true true (W.selectPresent pb allCols) (W.selectPresent pa allCols)))
            numId idc (by rw [e2]; exact hokB.1) idb r.2.1 e1 (hencr.1 rfl) _ rfl
          simp only [↓reduceIte, Res.pure_eq, Res.ok_bind, f1, f2, f3]
          rw [f4]
          obtain ⟨f1', f2', f3', f4'⟩ := img_factsG allCols pa hpa r.1.2 hokA
            (pre ++ (r.2.1 ++ cellsOf (W.selectPresent pb allCols) r.1.1))
            (rows.flatMap (rowBytesG true true (W.selectPresent pb allCols) (W.selectPresent pa allCols)))
            numData dtc (by rw [g2]; exact hokA.1) dtb r.2.2 g1 (hencr.2 rfl) _ (List.append_assoc _ _ _).symm
          simp only [f1', f2', f3', Res.ok_bind]
          rw [f4']
          have := ih hok' henc' hwide' ((pre ++ (r.2.1 ++ cellsOf (W.selectPresent pb allCols) r.1.1)) ++
            (r.2.2 ++ cellsOf (W.selectPresent pa allCols) r.1.2)) fuel (by simpa using hf)
          simp only [List.append_assoc] at this ⊢
          simp only [this, Res.ok_bind, List.map_cons, mkRowG, ↓reduceIte]

/-- the rows body with ANY encodings `eB`, `eA` of the presence bitmaps and, per row, of the NULL bitmaps -/
def bodyG (hi hd v2 : Bool) (idw id flags : Nat) (extra : Bytes) (allCols : List (W.ColDef × Bool)) (pb pa : List Bool)
    (eB eA : Bytes) (rows : List RowG) : Bytes :=
  ofLE idw id ++ (ofLE 2 flags ++ ((if v2 then ofLE 2 (2 + extra.length) ++ extra else []) ++
    (W.lenenc allCols.length ++ ((if hi then eB else []) ++ ((if hd then eA else []) ++
      rows.flatMap (rowBytesG hi hd (W.selectPresent pb allCols) (W.selectPresent pa allCols)))))))

/-- what `binlogEvent.Rows` returns for it -/
def rowsG (hi hd : Bool) (flags : Nat) (allCols : List (W.ColDef × Bool)) (pb pa : List Bool) (eB eA : Bytes)
    (rows : List RowG) : Rows :=
  { flags := flags,
    identifyColumns := if hi then ⟨eB, allCols.length⟩ else emptyBitmap,
    dataColumns := if hd then ⟨eA, allCols.length⟩ else emptyBitmap,
    rows := rows.map (mkRowG hi hd (W.selectPresent pb allCols) (W.selectPresent pa allCols)
      (if hi then (W.selectPresent pb allCols).length else 0)
      (if hd then (W.selectPresent pa allCols).length else 0)) }

/-- the header walk of `binlogEvent.Rows` followed by the rows loop (GV.C09R.rows_walk with arbitrary padding bits) -/
theorem rows_walkG (f : Format) (ev body : Bytes) (typ hs : Nat)
    (hT : evType ev = .ok typ) (hS : ev.sliceFrom f.headerLength = .ok body) (hH : f.headerSize typ = .ok hs)
    (hi hd v2 : Bool)
    (hhi : (typ = Facts.eUpdateRowsEventV1 ∨ typ = Facts.eUpdateRowsEventV2 ∨
            typ = Facts.eDeleteRowsEventV1 ∨ typ = Facts.eDeleteRowsEventV2) ↔ hi = true)
    (hhd : (typ = Facts.eWriteRowsEventV1 ∨ typ = Facts.eWriteRowsEventV2 ∨
            typ = Facts.eUpdateRowsEventV1 ∨ typ = Facts.eUpdateRowsEventV2) ↔ hd = true)
    (hv2 : (typ = Facts.eWriteRowsEventV2 ∨ typ = Facts.eUpdateRowsEventV2 ∨ typ = Facts.eDeleteRowsEventV2) ↔ v2 = true)
    (hor : hi = true ∨ hd = true)
    (idw id flags : Nat) (hpos : (if hs = 6 then 4 else 6) = idw) (hfl : flags < 65536)
    (extra : Bytes) (hex : extra.length < 65534)
    (allCols : List (W.ColDef × Bool)) (hne : allCols ≠ []) (hn : allCols.length < 2 ^ 31)
    (pb pa : List Bool) (hpb : pb.length = allCols.length) (hpa : pa.length = allCols.length)
    (eB eA : Bytes) (heB : hi = true → BmEnc pb eB) (heA : hd = true → BmEnc pa eA)
    (rows : List RowG)
    (hok : ∀ r ∈ rows, (hi = true → ImgOK (W.selectPresent pb allCols) r.1.1) ∧
                       (hd = true → ImgOK (W.selectPresent pa allCols) r.1.2))
    (henc : ∀ r ∈ rows, RowEnc hi hd r)
    (hwide : ∀ r ∈ rows, 0 < (rowBytesG hi hd (W.selectPresent pb allCols) (W.selectPresent pa allCols) r).length)
    (hbody : body = bodyG hi hd v2 idw id flags extra allCols pb pa eB eA rows) :
    M.rows f { flags := 0, database := [], name := [], types := allCols.map (fun c => UInt8.ofNat c.1.typ),
               canBeNull := ⟨[], 0⟩, metadata := allCols.map (fun c => c.1.md) } ev
      = .ok (rowsG hi hd flags allCols pb pa eB eA rows) := by
  unfold M.rows
  unfold bodyG at hbody
  simp only [hT, hS, hH, Res.ok_bind, hhi, hhd, hv2, Bool.decide_eq_true, hpos]
  -- flags
  have hflags : readLE body idw 2 = .ok flags := by
    rw [hbody, C15.readLE_at (ofLE idw id) _ idw 2 flags (by simp)]
    simp only [Nat.reducePow]; rw [Nat.mod_eq_of_lt hfl]
  simp only [hflags, Res.ok_bind]
  -- the prefix before the column count
  let P1 : Bytes := ofLE idw id ++ (ofLE 2 flags ++ (if v2 then ofLE 2 (2 + extra.length) ++ extra else []))
  let BB : Bytes := if hi then eB else []
  let BA : Bytes := if hd then eA else []
  let R : Bytes := rows.flatMap (rowBytesG hi hd (W.selectPresent pb allCols) (W.selectPresent pa allCols))
  have hpos1 : (if v2 = true then (readLE body (idw + 2) 2 >>= fun edl => pure (idw + 2 + edl)) else pure (idw + 2))
      = Res.ok P1.length := by
    cases v2 with
    | false => simp [P1]
    | true =>
      have : body = (ofLE idw id ++ ofLE 2 flags) ++ (ofLE 2 (2 + extra.length) ++ (extra ++
        (W.lenenc allCols.length ++ (BB ++ (BA ++ R))))) := by simp [hbody, BB, BA, R]
      rw [if_pos rfl, this, C15.readLE_at _ _ (idw + 2) 2 (2 + extra.length) (by simp)]
      simp only [Nat.reducePow, Res.ok_bind, Res.pure_eq, P1, if_pos, List.length_append, ofLE_length]
      rw [Nat.mod_eq_of_lt (by omega)]
      congr 1; omega
  simp only [hpos1, Res.ok_bind]
  have hBBne : BB ++ (BA ++ R) ≠ [] := by
    have hpos : 0 < (allCols.length + 7) / 8 := by
      have : 0 < allCols.length := List.length_pos_iff.mpr hne
      omega
    intro h
    have h0 := congrArg List.length h
    simp only [List.length_append, List.length_nil, BB, BA] at h0
    rcases hor with h | h
    · rw [h, if_pos rfl, (heB h).1, hpb] at h0; omega
    · rw [h, if_pos rfl, (heA h).1, hpa] at h0; omega
  have hlen : readLenEncInt body P1.length
      = .ok (some (allCols.length, P1.length + (W.lenenc allCols.length).length)) := by
    have : body = P1 ++ (W.lenenc allCols.length ++ (BB ++ (BA ++ R))) := by simp [hbody, P1, BB, BA, R]
    rw [this]
    exact C15.lenenc_read' P1 _ allCols.length _ (by simp only [Nat.reducePow] at hn ⊢; omega) hBBne rfl
  have hmax : ¬ allCols.length > maxInt32 := by simp only [Nat.reducePow] at hn; unfold maxInt32; omega
  simp only [hlen, Res.ok_bind, hmax, ↓reduceIte]
  let P2 : Bytes := P1 ++ W.lenenc allCols.length
  have hP2 : P1.length + (W.lenenc allCols.length).length = P2.length := by simp [P2]
  rw [hP2]
  have hb2 : body = P2 ++ (BB ++ (BA ++ R)) := by simp [hbody, P2, P1, BB, BA, R]
  have hB : (if hi = true then
        (newBitmap body P2.length allCols.length >>= fun x => x.1.bitCount >>= fun n => pure (x.1, n, x.2))
      else pure (emptyBitmap, 0, P2.length))
      = Res.ok ((if hi then ⟨eB, allCols.length⟩ else emptyBitmap : Bitmap),
          (if hi then (W.selectPresent pb allCols).length else 0), (P2 ++ BB).length) := by
    cases hi with
    | false => simp [BB]
    | true =>
      have he := heB rfl
      have : body = P2 ++ (eB ++ (BA ++ R)) := by rw [hb2]; simp [BB]
      rw [if_pos rfl, this, newBitmap_enc P2 _ eB _ _ (by rw [he.1, hpb]) rfl]
      simp only [Res.ok_bind, Res.pure_eq, if_pos]
      have hc := bitCount_enc he
      rw [hpb] at hc
      rw [hc, sel_length pb allCols hpb]
      simp [BB]
  simp only [hB, Res.ok_bind]
  have hb3 : body = (P2 ++ BB) ++ (BA ++ R) := by rw [hb2]; simp
  have hA : (if hd = true then
        (newBitmap body (P2 ++ BB).length allCols.length >>= fun x => x.1.bitCount >>= fun n => pure (x.1, n, x.2))
      else pure (emptyBitmap, 0, (P2 ++ BB).length))
      = Res.ok ((if hd then ⟨eA, allCols.length⟩ else emptyBitmap : Bitmap),
          (if hd then (W.selectPresent pa allCols).length else 0), ((P2 ++ BB) ++ BA).length) := by
    cases hd with
    | false => simp [BA]
    | true =>
      have he := heA rfl
      have : body = (P2 ++ BB) ++ (eA ++ R) := by rw [hb3]; simp [BA]
      rw [if_pos rfl, this, newBitmap_enc (P2 ++ BB) _ eA _ _ (by rw [he.1, hpa]) rfl]
      simp only [Res.ok_bind, Res.pure_eq, if_pos]
      have hc := bitCount_enc he
      rw [hpa] at hc
      rw [hc, sel_length pa allCols hpa]
      simp [BA, Nat.add_assoc]
  simp only [hA, Res.ok_bind]
  have hb4 : body = ((P2 ++ BB) ++ BA) ++ R := by rw [hb3]; simp
  have hfuel : rows.length < body.length + 1 := by
    have h1 : rows.length ≤ R.length := by
      clear hb4 hb3 hA hB hb2 hlen hBBne hpos1 hflags hbody hok henc
      induction rows with
      | nil => simp
      | cons r rows ih =>
        have h0 := hwide r List.mem_cons_self
        have := ih (fun r hr => hwide r (List.mem_cons_of_mem _ hr))
        simp only [R, List.flatMap_cons, List.length_append, List.length_cons] at this ⊢
        omega
    have h2 : R.length ≤ body.length := by rw [hb4]; simp only [List.length_append]; omega
    omega
  have hloop := loop_genG allCols pb pa hpb hpa hi hd
    (if hi then ⟨eB, allCols.length⟩ else emptyBitmap)
    (if hd then ⟨eA, allCols.length⟩ else emptyBitmap)
    (if hi then (W.selectPresent pb allCols).length else 0)
    (if hd then (W.selectPresent pa allCols).length else 0)
    (by intro h; simp [h, heB h]) (by intro h; simp [h, heA h]) rows hok henc hwide ((P2 ++ BB) ++ BA) (body.length + 1) hfuel
  rw [← hb4] at hloop
  simp only [hloop, Res.ok_bind, Res.pure_eq, rowsG]

/-! ### the driver's padded writer is an instance -/

/-- the rows of `D.rowsBodyP pad`, each with its two NULL bitmaps as `D.bmBytes pad` writes them -/
def padRows (pad : Bool) (rows : List RowV) : List RowG :=
  rows.map fun r => (r, D.bmBytes pad (r.1.map (·.isNone)), D.bmBytes pad (r.2.map (·.isNone)))

theorem rowsBodyP_eq (pad : Bool) (k : W.RowKind) (v2 : Bool) (idw id flags : Nat) (extra : Bytes)
    (allCols : List (W.ColDef × Bool)) (pb pa : List Bool) (rows : List RowV) :
    D.rowsBodyP pad k v2 idw id flags extra (allCols.map (·.1)) pb pa rows
      = bodyG (k != .write) (k != .delete) v2 idw id flags extra allCols pb pa (D.bmBytes pad pb) (D.bmBytes pad pa)
          (padRows pad rows) := by
  unfold D.rowsBodyP bodyG padRows
  simp only [List.append_assoc, List.length_map, sel_map, List.flatMap_map]
  rfl

/-- `pad = false` is the Spec writer -/
theorem rowsBodyP_false (k : W.RowKind) (v2 : Bool) (idw id flags : Nat) (extra : Bytes) (cols : List W.ColDef)
    (pb pa : List Bool) (rows : List RowV) :
    D.rowsBodyP false k v2 idw id flags extra cols pb pa rows = W.rowsBody k v2 idw id flags extra cols pb pa rows := by
  unfold D.rowsBodyP W.rowsBody D.imageBytesP W.imageBytes
  simp only [bmBytes_false]
  rfl

theorem rowBytesG_length_pad (pad hi hd : Bool) (selB selA : List (W.ColDef × Bool)) (r : RowV) :
    (rowBytesG hi hd selB selA (r, D.bmBytes pad (r.1.map (·.isNone)), D.bmBytes pad (r.2.map (·.isNone)))).length
      = (rowBytes hi hd selB selA r).length := by
  cases hi <;> cases hd <;>
    simp [rowBytesG, rowBytes, imageBytes_eq, bmBytes_length, C15.bitmapBytes_length]

theorem imageBytesP_length (pad : Bool) (cs : List W.ColDef) (vs : List (Option W.CellVal)) :
    (D.imageBytesP pad cs vs).length = (W.imageBytes cs vs).length := by
  unfold D.imageBytesP W.imageBytes
  simp only [List.length_append, bmBytes_length, C15.bitmapBytes_length]
  rfl

theorem if_length_congr (b : Bool) (x y : Bytes) (h : x.length = y.length) :
    (if b then x else []).length = (if b then y else []).length := by
  cases b <;> simp [h]

/-- same length, whatever `pad` -/
theorem rowsBodyP_length (pad : Bool) (k : W.RowKind) (v2 : Bool) (idw id flags : Nat) (extra : Bytes) (cols : List W.ColDef)
    (pb pa : List Bool) (rows : List RowV) :
    (D.rowsBodyP pad k v2 idw id flags extra cols pb pa rows).length
      = (W.rowsBody k v2 idw id flags extra cols pb pa rows).length := by
  have hbm : ∀ bits, (D.bmBytes pad bits).length = (W.bitmapBytes bits).length := by
    intro bits; rw [bmBytes_length, C15.bitmapBytes_length]
  unfold D.rowsBodyP W.rowsBody
  simp only [List.length_append, List.length_flatMap]
  rw [if_length_congr _ _ _ (hbm pb), if_length_congr _ _ _ (hbm pa)]
  congr 3
  funext x
  rw [if_length_congr _ _ _ (imageBytesP_length pad _ x.1), if_length_congr _ _ _ (imageBytesP_length pad _ x.2)]

/-- `binlogEvent.Rows` on the padded body, for both values of `pad` (hypotheses of `C09_rows_roundtrip`) -/
theorem rows_padded (pad : Bool) (f : Format) (hf : f.headerLength = 19) (hdr : Bytes) (hh : hdr.length = 19)
    (k : W.RowKind) (v2 : Bool) (idw id flags : Nat) (hidw : idw = 4 ∨ idw = 6)
    (h4 : hdr[4]? = some (UInt8.ofNat (W.rowsEventType k v2)))
    (hhs : f.headerSize (W.rowsEventType k v2) = .ok (if idw = 4 then 6 else if v2 then 10 else 8))
    (hfl : flags < 65536) (extra : Bytes) (hex : extra.length < 65534)
    (cols : List (W.ColDef × Bool)) (hne : cols ≠ []) (hn : cols.length < 2 ^ 31)
    (pb pa : List Bool) (hpb : pb.length = cols.length) (hpa : pa.length = cols.length)
    (rows : List RowV)
    (hrows : ∀ r ∈ rows, (k ≠ .write → ImgOK (W.selectPresent pb cols) r.1) ∧ (k ≠ .delete → ImgOK (W.selectPresent pa cols) r.2))
    (hwide : ∀ r ∈ rows, 0 < ((if k ≠ .write then W.imageBytes ((W.selectPresent pb cols).map (·.1)) r.1 else []) ++
                              (if k ≠ .delete then W.imageBytes ((W.selectPresent pa cols).map (·.1)) r.2 else [])).length) :
    M.rows f { flags := 0, database := [], name := [], types := cols.map (fun c => UInt8.ofNat c.1.typ),
               canBeNull := ⟨[], 0⟩, metadata := cols.map (fun c => c.1.md) }
        (hdr ++ D.rowsBodyP pad k v2 idw id flags extra (cols.map (·.1)) pb pa rows)
      = .ok (rowsG (k != .write) (k != .delete) flags cols pb pa (D.bmBytes pad pb) (D.bmBytes pad pa) (padRows pad rows)) := by
  have hlt : W.rowsEventType k v2 < 256 := by cases k <;> cases v2 <;> decide
  have hT : evType (hdr ++ D.rowsBodyP pad k v2 idw id flags extra (cols.map (·.1)) pb pa rows)
      = .ok (W.rowsEventType k v2) := by
    unfold evType Bytes.get
    rw [List.getElem?_append_left (by omega), h4]
    simp only [Res.ok_bind, Res.pure_eq, UInt8.toNat_ofNat', Nat.mod_eq_of_lt hlt]
  have hS : (hdr ++ D.rowsBodyP pad k v2 idw id flags extra (cols.map (·.1)) pb pa rows).sliceFrom f.headerLength
      = .ok (D.rowsBodyP pad k v2 idw id flags extra (cols.map (·.1)) pb pa rows) := by
    rw [hf]; exact C15.sliceFrom_app hdr _ 19 hh.symm
  have hpos : (if (if idw = 4 then 6 else if v2 then 10 else 8) = 6 then 4 else 6) = idw := by
    rcases hidw with rfl | rfl <;> cases v2 <;> simp
  have hkw : ((k != .write) = true) ↔ k ≠ .write := by cases k <;> decide
  have hkd : ((k != .delete) = true) ↔ k ≠ .delete := by cases k <;> decide
  exact rows_walkG f _ _ _ _ hT hS hhs (k != .write) (k != .delete) v2
    (by cases k <;> cases v2 <;> decide) (by cases k <;> cases v2 <;> decide) (by cases k <;> cases v2 <;> decide)
    (by cases k <;> decide) idw id flags hpos hfl extra hex cols hne hn pb pa hpb hpa _ _
    (fun _ => bmEnc_bmBytes pad pb) (fun _ => bmEnc_bmBytes pad pa) (padRows pad rows)
    (by
      intro x hx
      obtain ⟨r, hr, rfl⟩ := List.mem_map.mp hx
      exact ⟨fun h => (hrows r hr).1 (hkw.mp h), fun h => (hrows r hr).2 (hkd.mp h)⟩)
    (by
      intro x hx
      obtain ⟨r, hr, rfl⟩ := List.mem_map.mp hx
      exact ⟨fun _ => bmEnc_bmBytes pad _, fun _ => bmEnc_bmBytes pad _⟩)
    (by
      intro x hx
      obtain ⟨r, hr, rfl⟩ := List.mem_map.mp hx
      rw [rowBytesG_length_pad]
      have := hwide r hr
      simpa only [rowBytes, hkw, hkd] using this)
    (rowsBodyP_eq pad k v2 idw id flags extra cols pb pa rows)

/-! ### what the reader can tell apart -/

/-- two bitmaps the reader cannot tell apart: same count, same bit at every index below the count, same bit count
    (`bitCount` looks at the first `count` bits only) -/
def BitmapSame (a b : Bitmap) : Prop :=
  a.count = b.count ∧ (∀ i, i < b.count → a.bit i = b.bit i) ∧ a.bitCount = b.bitCount

def RowSame (a b : Row) : Prop :=
  BitmapSame a.nullIdentify b.nullIdentify ∧ BitmapSame a.nullData b.nullData ∧ a.identify = b.identify ∧ a.data = b.data

/-- decoded rows events equal up to the raw bytes of their bitmaps -/
def RowsSame (a b : Rows) : Prop :=
  a.flags = b.flags ∧ BitmapSame a.identifyColumns b.identifyColumns ∧ BitmapSame a.dataColumns b.dataColumns ∧
  a.rows.length = b.rows.length ∧ ∀ (i : Nat) ra rb, a.rows[i]? = some ra → b.rows[i]? = some rb → RowSame ra rb

theorem bitmapSame_refl (a : Bitmap) : BitmapSame a a := ⟨rfl, fun _ _ => rfl, rfl⟩

theorem bitmapSame_enc {bits : List Bool} {e e' : Bytes} (h : BmEnc bits e) (h' : BmEnc bits e') (n : Nat)
    (hn : n = bits.length) : BitmapSame ⟨e, n⟩ ⟨e', n⟩ := by
  subst hn
  refine ⟨rfl, ?_, by rw [bitCount_enc h, bitCount_enc h']⟩
  intro i hi
  simp only at hi
  rw [bmEnc_bit h _ i bits[i] (List.getElem?_eq_getElem hi), bmEnc_bit h' _ i bits[i] (List.getElem?_eq_getElem hi)]

/-- the decoded rows for two paddings of the same rows event are the same to the reader -/
theorem rowsG_same (pad pad' : Bool) (k : W.RowKind) (flags : Nat) (cols : List (W.ColDef × Bool)) (pb pa : List Bool)
    (hpb : pb.length = cols.length) (hpa : pa.length = cols.length) (rows : List RowV)
    (hrows : ∀ r ∈ rows, (k ≠ .write → ImgOK (W.selectPresent pb cols) r.1) ∧ (k ≠ .delete → ImgOK (W.selectPresent pa cols) r.2)) :
    RowsSame (rowsG (k != .write) (k != .delete) flags cols pb pa (D.bmBytes pad pb) (D.bmBytes pad pa) (padRows pad rows))
             (rowsG (k != .write) (k != .delete) flags cols pb pa (D.bmBytes pad' pb) (D.bmBytes pad' pa) (padRows pad' rows)) := by
  have hkw : ((k != .write) = true) ↔ k ≠ .write := by cases k <;> decide
  have hkd : ((k != .delete) = true) ↔ k ≠ .delete := by cases k <;> decide
  refine ⟨rfl, ?_, ?_, by simp [rowsG, padRows], ?_⟩
  · simp only [rowsG]
    cases (k != W.RowKind.write)
    · exact bitmapSame_refl _
    · exact bitmapSame_enc (bmEnc_bmBytes pad pb) (bmEnc_bmBytes pad' pb) _ hpb.symm
  · simp only [rowsG]
    cases (k != W.RowKind.delete)
    · exact bitmapSame_refl _
    · exact bitmapSame_enc (bmEnc_bmBytes pad pa) (bmEnc_bmBytes pad' pa) _ hpa.symm
  · intro i ra rb ha hb
    simp only [rowsG, padRows, List.map_map, List.getElem?_map, Option.map_eq_some_iff] at ha hb
    obtain ⟨r, hr, rfl⟩ := ha
    obtain ⟨r', hr', rfl⟩ := hb
    rw [hr] at hr'
    cases hr'
    have hmem : r ∈ rows := List.mem_of_getElem? hr
    obtain ⟨h1, h2⟩ := hrows r hmem
    refine ⟨?_, ?_, rfl, rfl⟩
    · simp only [mkRowG, Function.comp]
      cases hb : (k != W.RowKind.write)
      · exact bitmapSame_refl _
      · exact bitmapSame_enc (bmEnc_bmBytes pad _) (bmEnc_bmBytes pad' _) _
          (by simp [(h1 (hkw.mp hb)).1])
    · simp only [mkRowG, Function.comp]
      cases hb : (k != W.RowKind.delete)
      · exact bitmapSame_refl _
      · exact bitmapSame_enc (bmEnc_bmBytes pad _) (bmEnc_bmBytes pad' _) _
          (by simp [(h2 (hkd.mp hb)).1])

/-! ## Part B — the padded rows event through `classify` -/

/-- the column loop on one decoded image of table `t` whose bitmaps are any encodings of the right bits
    (GV.C01b.rc_table with arbitrary padding bits) -/
theorem rc_tableG (E : Ext) (t : W.TableDef) (hn : t.names.length = t.cols.length)
    (hu : t.unsigned.length = t.cols.length) (htyp : ∀ c ∈ t.cols, c.typ < 256)
    (ps : List Bool) (hps : ps.length = t.cols.length) (vals : List (Option W.CellVal))
    (hok : ImgOK (W.selectPresent ps (colsU t)) vals) (eP nb : Bytes) (hP : BmEnc ps eP)
    (hN : BmEnc (vals.map (·.isNone)) nb) (k n : Nat) :
    rowColumns E (tmOf t) (infoOf t) ⟨eP, k⟩ ⟨nb, n⟩ (cellsOf (W.selectPresent ps (colsU t)) vals) t.cols.length 0 0 0
      = .ok (expectCols E (colsU t) ps t.names vals) := by
  have hl : (colsU t).length = t.cols.length := by simp [colsU, hu]
  have := rc_gen E (tmOf t) (infoOf t) ⟨eP, k⟩ ⟨nb, n⟩ []
    (colsU t) ps t.names vals 0 0 [] (by omega) (by omega) hok (GV.C01b.colsU_typ t htyp)
    (by intro j b hj; rw [Nat.zero_add]; exact bmEnc_bit hP _ _ _ hj)
    (by
      intro j col hj
      rw [Nat.zero_add]
      obtain ⟨a, b⟩ := col
      simp only [colsU, List.getElem?_zip_eq_some] at hj
      simp [tmOf, Bytes.get, hj.1])
    (by
      intro j nm col hj hj'
      rw [Nat.zero_add]
      obtain ⟨a, b⟩ := col
      simp only [colsU, List.getElem?_zip_eq_some] at hj'
      simp [infoOf, List.getElem?_zip_eq_some, hj, hj'.2])
    (by intro j v hj; rw [Nat.zero_add]; exact bmEnc_bit hN _ _ _ (by simp [hj]))
  rw [hl] at this
  simpa using this

/-- `binlogEvent.Rows` on the padded event of table `t`, decoded with the cached map -/
theorem rows_tableP (pad : Bool) (f : Format) (hf : f.headerLength = 19) (hdr : Bytes) (hh : hdr.length = 19)
    (k : W.RowKind) (v2 : Bool) (idw id flags : Nat) (hidw : idw = 4 ∨ idw = 6)
    (t : W.TableDef) (hu : t.unsigned.length = t.cols.length) (hne : t.cols ≠ []) (hn : t.cols.length < 2 ^ 31)
    (extra : Bytes) (hex : extra.length < 65534) (pb pa : List Bool) (rows : List RowV)
    (h4 : hdr[4]? = some (UInt8.ofNat (W.rowsEventType k v2)))
    (hhs : f.headerSize (W.rowsEventType k v2) = .ok (if idw = 4 then 6 else if v2 then 10 else 8))
    (hfl : flags < 65536) (hpb : pb.length = t.cols.length) (hpa : pa.length = t.cols.length)
    (hrows : ∀ r ∈ rows, (k ≠ .write → ImgOK (W.selectPresent pb (colsU t)) r.1) ∧
                         (k ≠ .delete → ImgOK (W.selectPresent pa (colsU t)) r.2))
    (hwide : ∀ r ∈ rows, 0 < ((if k ≠ .write then W.imageBytes ((W.selectPresent pb (colsU t)).map (·.1)) r.1 else []) ++
                              (if k ≠ .delete then W.imageBytes ((W.selectPresent pa (colsU t)).map (·.1)) r.2 else [])).length) :
    M.rows f (tmOf t) (hdr ++ D.rowsBodyP pad k v2 idw id flags extra t.cols pb pa rows)
      = .ok (rowsG (k != .write) (k != .delete) flags (colsU t) pb pa (D.bmBytes pad pb) (D.bmBytes pad pa)
              (padRows pad rows)) := by
  have hl : (colsU t).length = t.cols.length := by simp [colsU, hu]
  have hfst : (colsU t).map (·.1) = t.cols := GV.C01b.colsU_fst t hu
  have hcne : colsU t ≠ [] := by
    intro h; rw [h] at hl; simp at hl; exact hne (List.eq_nil_of_length_eq_zero hl.symm)
  have key := rows_padded pad f hf hdr hh k v2 idw id flags hidw h4 hhs hfl extra hex (colsU t) hcne (by omega)
    pb pa (by omega) (by omega) rows hrows hwide
  rw [hfst] at key
  have e := GV.C01b.rows_congr f (tmOf t)
    { flags := 0, database := [], name := [], types := (colsU t).map (fun c => UInt8.ofNat c.1.typ),
      canBeNull := ⟨[], 0⟩, metadata := (colsU t).map (fun c => c.1.md) }
    (by simp [tmOf, ← hfst]) (by simp [tmOf, ← hfst]) (hdr ++ D.rowsBodyP pad k v2 idw id flags extra t.cols pb pa rows)
  rw [e, key]

/-- converting the decoded rows of the padded event: exactly the columns of the unpadded one -/
theorem rowsOf_tableP (pad : Bool) (E : Ext) (t : W.TableDef) (hnm : t.names.length = t.cols.length)
    (hu : t.unsigned.length = t.cols.length) (htyp : ∀ c ∈ t.cols, c.typ < 256)
    (k : W.RowKind) (flags : Nat) (pb pa : List Bool) (hpb : pb.length = t.cols.length) (hpa : pa.length = t.cols.length)
    (rows : List RowV)
    (hrows : ∀ r ∈ rows, (k ≠ .write → ImgOK (W.selectPresent pb (colsU t)) r.1) ∧
                         (k ≠ .delete → ImgOK (W.selectPresent pa (colsU t)) r.2)) :
    rowsOf E ⟨tmOf t, infoOf t⟩
        (rowsG (k != .write) (k != .delete) flags (colsU t) pb pa (D.bmBytes pad pb) (D.bmBytes pad pa) (padRows pad rows))
        (GV.C01b.mk k)
        (rowsG (k != .write) (k != .delete) flags (colsU t) pb pa (D.bmBytes pad pb) (D.bmBytes pad pa) (padRows pad rows)).rows
      = .ok (if k = .delete then [] else rows.map (fun r => expectCols E (colsU t) pa t.names r.2),
             if k = .write then [] else rows.map (fun r => expectCols E (colsU t) pb t.names r.1)) := by
  have hcl : (infoOf t).columns.length = t.cols.length := by simp [infoOf, hnm, hu]
  have hl : (colsU t).length = t.cols.length := by simp [colsU, hu]
  have hrw : (rowsG (k != .write) (k != .delete) flags (colsU t) pb pa (D.bmBytes pad pb) (D.bmBytes pad pa)
        (padRows pad rows)).rows
      = rows.map (fun r => mkRowG (k != .write) (k != .delete) (W.selectPresent pb (colsU t)) (W.selectPresent pa (colsU t))
          (if (k != .write) then (W.selectPresent pb (colsU t)).length else 0)
          (if (k != .delete) then (W.selectPresent pa (colsU t)).length else 0)
          (r, D.bmBytes pad (r.1.map (·.isNone)), D.bmBytes pad (r.2.map (·.isNone)))) := by
    simp [rowsG, padRows, List.map_map, Function.comp_def]
  rw [hrw]
  apply GV.C01b.rowsOf_map E ⟨tmOf t, infoOf t⟩ _ k _
    (fun r => expectCols E (colsU t) pa t.names r.2) (fun r => expectCols E (colsU t) pb t.names r.1) rows
  · intro hk r hr
    have hb := (GV.C01b.bne_delete k).mpr hk
    simp only [getValuesFromRow, rowsG, hb, if_true, hcl, hl, bne_self_eq_false, Bool.false_eq_true, if_false, mkRowG]
    exact rc_tableG E t hnm hu htyp pa hpa r.2 ((hrows r hr).2 hk) _ _ (bmEnc_bmBytes pad pa) (bmEnc_bmBytes pad _) _ _
  · intro hk r hr
    have hb := (GV.C01b.bne_write k).mpr hk
    simp only [getIdentifiesFromRow, rowsG, hb, if_true, hcl, hl, bne_self_eq_false, Bool.false_eq_true, if_false, mkRowG]
    exact rc_tableG E t hnm hu htyp pb hpb r.1 ((hrows r hr).1 hk) _ _ (bmEnc_bmBytes pad pb) (bmEnc_bmBytes pad _) _ _

theorem rowsBodyP_split (pad : Bool) (k : W.RowKind) (v2 : Bool) (idw id flags : Nat) (extra : Bytes) (cols : List W.ColDef)
    (pb pa : List Bool) (rows : List RowV) :
    ∃ rest, D.rowsBodyP pad k v2 idw id flags extra cols pb pa rows = ofLE idw id ++ rest := by
  unfold D.rowsBodyP
  simp only [List.append_assoc]
  exact ⟨_, rfl⟩

/-- the Spec body of a rows change / its padded twin -/
abbrev bodyOf (cfg : W.Cfg) (c : W.RowsChange) : Bytes :=
  W.rowsBody c.kind cfg.rowsV2 (idw cfg) c.table.id c.flags c.extra c.table.cols c.presentBefore c.presentAfter c.rows
abbrev bodyP (pad : Bool) (cfg : W.Cfg) (c : W.RowsChange) : Bytes :=
  D.rowsBodyP pad c.kind cfg.rowsV2 (idw cfg) c.table.id c.flags c.extra c.table.cols c.presentBefore c.presentAfter c.rows

theorem evOK_pad {pad : Bool} {cfg : W.Cfg} {c : W.RowsChange} {crc : Option Bytes} {m : W.EvMeta} {start : Nat}
    (hok : EvOK crc m start (bodyOf cfg c)) : EvOK crc m start (bodyP pad cfg c) := by
  unfold EvOK at hok ⊢
  rw [show (bodyP pad cfg c).length = (bodyOf cfg c).length from rowsBodyP_length ..]
  exact hok

/-- (C01_classify_rows for the padded event) a rows event whose bitmaps carry the padding bits of `pad` is classified,
    for a cached table, as exactly the change the master logged -/
theorem classify_rows_pad (pad : Bool) (env : Env) (st : PState) (cfg : W.Cfg) (hr : Ready cfg st) (crc : Option Bytes)
    (hc : crcOK cfg crc) (m : W.EvMeta) (start : Nat) (c : W.RowsChange) (hrows : RowsOK cfg c)
    (hts : m.ts = c.ts) (hok : EvOK crc m start (bodyOf cfg c))
    (hcache : findTable st.tables c.table.id = some ⟨tmOf c.table, infoOf c.table⟩) :
    classify env st (W.event crc m (W.rowsEventType c.kind cfg.rowsV2) start (bodyP pad cfg c)).1
      = .rows (seOfRows env.ext c) (start + (19 + (bodyOf cfg c).length + Props.C16.crcLen crc)) c.ts := by
  have hlt := GV.C01b.rowsType_lt c.kind cfg.rowsV2
  have hokP := evOK_pad (pad := pad) hok
  obtain ⟨h1, h2, h3, h4, h5, h6⟩ := C01.pre st.format crc m (W.rowsEventType c.kind cfg.rowsV2) start _
    (GV.C01b.crc_pre hr hc) (GV.C01b.meta_pre _ hlt hokP)
  have hf : st.format = fmtOf cfg := hr
  have hhs : st.format.headerSize (W.rowsEventType c.kind cfg.rowsV2)
      = .ok (if idw cfg = 4 then 6 else if cfg.rowsV2 then 10 else 8) := by
    rw [hf]; exact GV.C01b.hs_rows cfg c.kind
  obtain ⟨rest, hb⟩ := rowsBodyP_split pad c.kind cfg.rowsV2 (idw cfg) c.table.id c.flags c.extra c.table.cols
    c.presentBefore c.presentAfter c.rows
  have hid := GV.C01b.tableID_body st.format (GV.C01b.hl19 hr) _ (C01.hdrOf_length ..) _ _ (idw cfg) c.table.id
    (idw_cases cfg) _ rest hb h4 hhs (by rcases idw_cases cfg with h | h <;> cases cfg.rowsV2 <;> simp [h]) hrows.table.id
  have htypc : ∀ x ∈ c.table.cols, x.typ < 256 := fun x hx => GV.C15.colOK_typ x (hrows.table.cols x hx)
  have hcnt : c.table.cols.length < 2 ^ 31 := by
    have := hrows.table.count
    simp only [Nat.reducePow] at this ⊢; omega
  have hh4 : (C01.hdrOf crc m (W.rowsEventType c.kind cfg.rowsV2) start (bodyP pad cfg c))[4]?
      = some (UInt8.ofNat (W.rowsEventType c.kind cfg.rowsV2)) := by
    unfold C01.hdrOf W.header
    simp [ofLE_length]
  have hR := rows_tableP pad st.format (GV.C01b.hl19 hr) _ (C01.hdrOf_length ..) c.kind cfg.rowsV2 (idw cfg)
    c.table.id c.flags (idw_cases cfg) c.table hrows.table.unsigned hrows.table.ne hcnt c.extra hrows.extra
    c.presentBefore c.presentAfter c.rows hh4 hhs hrows.flags hrows.pb hrows.pa hrows.images hrows.wide
  have hO := rowsOf_tableP pad env.ext c.table hrows.table.names hrows.table.unsigned htypc c.kind c.flags
    c.presentBefore c.presentAfter hrows.pb hrows.pa c.rows hrows.images
  have key := GV.C01b.classify_rows_generic env st _ _ c.kind cfg.rowsV2 h1 h2 (GV.C01b.notZero hr) h3 h4 c.table.id
    ⟨tmOf c.table, infoOf c.table⟩ _ _ _ _ _ hid hcache hR h5 h6 hO
  have hmk : ∀ k, GV.C01b.mk k = mKind k := by intro k; cases k <;> rfl
  rw [key, hts, hmk, show (bodyP pad cfg c).length = (bodyOf cfg c).length from rowsBodyP_length ..]
  rfl

/-! ## Part C — the padded stream -/

/-- `parseEvents` looks at each packet only through `stepEvent` -/
theorem parse_map_congr (env : Env) (f : Bytes → Bytes) (I : PState → Prop) (acc : Transaction → Bool) (tail : List Input) :
    ∀ (l : List Bytes) (st : PState), I st →
    (∀ b ∈ l, ∀ st, I st → stepEvent env st (f b) = stepEvent env st b ∧
        (∀ st', stepEvent env st b = .cont st' → I st') ∧ (∀ tx a, stepEvent env st b = .deliver tx a → I a)) →
    parseEvents env acc st ((l.map f).map Input.event ++ tail) = parseEvents env acc st (l.map Input.event ++ tail) := by
  intro l
  induction l with
  | nil => intro st _ _; rfl
  | cons b l ih =>
    intro st hI hall
    obtain ⟨h1, h2, h3⟩ := hall b List.mem_cons_self st hI
    have hall' := fun x hx => hall x (List.mem_cons_of_mem _ hx)
    simp only [List.map_cons, List.cons_append, parseEvents, h1]
    cases hs : stepEvent env st b with
    | cont st' => simp only [ih st' (h2 st' hs) hall']
    | stop e c => rfl
    | deliver tx a => simp only [ih a (h3 tx a hs) hall']

/-- decoded events that leave the format and the table cache alone -/
def NotFT : Decoded → Prop
  | .format _ => False
  | .tableMap _ _ _ => False
  | _ => True

theorem stepD_keeps (st : PState) (d : Decoded) (h : NotFT d) :
    (∀ st', stepD st d = .cont st' → st'.format = st.format ∧ st'.tables = st.tables) ∧
    (∀ tx a, stepD st d = .deliver tx a → a.format = st.format ∧ a.tables = st.tables) := by
  cases d <;> simp only [NotFT] at h <;> simp only [stepD, commitStep] <;>
    refine ⟨fun st' hs => ?_, fun tx a hs => ?_⟩ <;>
    (try split at hs) <;> (try split at hs) <;> (try split at hs) <;> (try split at hs) <;> (try split at hs) <;>
    simp_all <;> (first | (obtain ⟨_, rfl⟩ := hs; exact ⟨rfl, rfl⟩) | (subst hs; exact ⟨rfl, rfl⟩))

theorem notFT_ofRes {α} (r : Res α) (k : α → Decoded) (h : ∀ a, NotFT (k a)) : NotFT (ofRes r k) := by
  cases r with
  | ok a => exact h a
  | err => exact True.intro
  | panic => exact True.intro
  | diverge => exact True.intro

theorem classify_notFT (env : Env) (st : PState) (b ev : Bytes) (typ : Nat) (h1 : isValid b = true)
    (h2 : evType b = .ok typ) (hz : st.format.isZero = false) (h3 : stripChecksum56 st.format b = .ok ev)
    (h4 : evType ev = .ok typ) (h15 : typ ≠ 15) (h19 : typ ≠ 19) : NotFT (classify env st b) := by
  simp only [classify, h1, h2, h3, h4, hz, ofRes, Facts.eFormatDescriptionEvent, Facts.eTableMapEvent, h15, h19,
    Bool.not_true, Bool.false_eq_true, if_false]
  repeat' (first | exact trivial | (apply notFT_ofRes; intro _) | split)

/-- a rows event for a table id that is not cached is an error — before the body is looked at -/
theorem classify_rows_nocache (env : Env) (st : PState) (ev0 ev : Bytes) (k : W.RowKind) (v2 : Bool)
    (h1 : isValid ev0 = true) (h2 : evType ev0 = .ok (W.rowsEventType k v2)) (hz : st.format.isZero = false)
    (h3 : stripChecksum56 st.format ev0 = .ok ev) (h4 : evType ev = .ok (W.rowsEventType k v2))
    (id : Nat) (hid : tableID st.format ev = .ok id) (hf : findTable st.tables id = none) :
    classify env st ev0 = .decodeErr := by
  cases k <;> cases v2 <;>
    simp only [W.rowsEventType] at h2 h4 ⊢ <;>
    simp [classify, h1, h2, h3, h4, hz, ofRes, hid, hf, Facts.eFormatDescriptionEvent, Facts.eXIDEvent,
      Facts.eRotateEvent, Facts.eQueryEvent, Facts.eTableMapEvent, Facts.eWriteRowsEventV1, Facts.eWriteRowsEventV2,
      Facts.eUpdateRowsEventV1, Facts.eUpdateRowsEventV2, Facts.eDeleteRowsEventV1, Facts.eDeleteRowsEventV2]

theorem classify_rows_pad_nocache (pad : Bool) (env : Env) (st : PState) (cfg : W.Cfg) (hr : Ready cfg st)
    (crc : Option Bytes) (hc : crcOK cfg crc) (m : W.EvMeta) (start : Nat) (c : W.RowsChange) (hrows : RowsOK cfg c)
    (hok : EvOK crc m start (bodyOf cfg c)) (hcache : findTable st.tables c.table.id = none) :
    classify env st (W.event crc m (W.rowsEventType c.kind cfg.rowsV2) start (bodyP pad cfg c)).1 = .decodeErr := by
  have hlt := GV.C01b.rowsType_lt c.kind cfg.rowsV2
  have hokP := evOK_pad (pad := pad) hok
  obtain ⟨h1, h2, h3, h4, _, _⟩ := C01.pre st.format crc m (W.rowsEventType c.kind cfg.rowsV2) start _
    (GV.C01b.crc_pre hr hc) (GV.C01b.meta_pre _ hlt hokP)
  have hf : st.format = fmtOf cfg := hr
  have hhs : st.format.headerSize (W.rowsEventType c.kind cfg.rowsV2)
      = .ok (if idw cfg = 4 then 6 else if cfg.rowsV2 then 10 else 8) := by
    rw [hf]; exact GV.C01b.hs_rows cfg c.kind
  obtain ⟨rest, hb⟩ := rowsBodyP_split pad c.kind cfg.rowsV2 (idw cfg) c.table.id c.flags c.extra c.table.cols
    c.presentBefore c.presentAfter c.rows
  have hid := GV.C01b.tableID_body st.format (GV.C01b.hl19 hr) _ (C01.hdrOf_length ..) _ _ (idw cfg) c.table.id
    (idw_cases cfg) _ rest hb h4 hhs (by rcases idw_cases cfg with h | h <;> cases cfg.rowsV2 <;> simp [h]) hrows.table.id
  exact classify_rows_nocache env st _ _ c.kind cfg.rowsV2 h1 h2 (GV.C01b.notZero hr) h3 h4 c.table.id hid hcache

/-- conversion level: whatever the padding bits, the packet is classified alike — in every state that has seen the
    format and whose cache entry for the table id, if there is one, is the table's -/
theorem classify_pad_eq (pad : Bool) (env : Env) (st : PState) (cfg : W.Cfg) (hr : Ready cfg st) (crc : Option Bytes)
    (hc : crcOK cfg crc) (m : W.EvMeta) (start : Nat) (c : W.RowsChange) (hrows : RowsOK cfg c)
    (hts : m.ts = c.ts) (hok : EvOK crc m start (bodyOf cfg c))
    (hcache : ∀ tc, findTable st.tables c.table.id = some tc → tc = ⟨tmOf c.table, infoOf c.table⟩) :
    classify env st (W.event crc m (W.rowsEventType c.kind cfg.rowsV2) start (bodyP pad cfg c)).1
      = classify env st (W.event crc m (W.rowsEventType c.kind cfg.rowsV2) start (bodyOf cfg c)).1 := by
  have e0 : bodyOf cfg c = bodyP false cfg c := (rowsBodyP_false ..).symm
  cases hf : findTable st.tables c.table.id with
  | none =>
    rw [classify_rows_pad_nocache pad env st cfg hr crc hc m start c hrows hok hf, e0,
      classify_rows_pad_nocache false env st cfg hr crc hc m start c hrows hok hf]
  | some tc =>
    have := hcache tc hf
    subst this
    rw [classify_rows_pad pad env st cfg hr crc hc m start c hrows hts hok hf, e0,
      classify_rows_pad false env st cfg hr crc hc m start c hrows hts hok hf, ← e0]

/-! ### `D.padPacket` on the packets of the Spec master -/

theorem event_fst (crc : Option Bytes) (m : W.EvMeta) (typ start : Nat) (body : Bytes) (nx : Option Nat) :
    (W.event crc m typ start body nx).1
      = W.header m.ts typ m.sid (19 + body.length + Props.C16.crcLen crc)
          (nx.getD (start + (19 + body.length + Props.C16.crcLen crc))) m.flags ++ (body ++ (crc.getD [])) := by
  cases crc <;> simp [W.event, Props.C16.crcLen]

theorem header_getD4 (ts typ sid len next flags : Nat) (rest : Bytes) :
    (W.header ts typ sid len next flags ++ rest).getD 4 0 = UInt8.ofNat typ := by
  simp [W.header, List.getD, ofLE_length]

theorem event_getD4 (crc : Option Bytes) (m : W.EvMeta) (typ start : Nat) (body : Bytes) (nx : Option Nat) :
    (W.event crc m typ start body nx).1.getD 4 0 = UInt8.ofNat typ := by
  rw [event_fst, header_getD4]

def rowsTypes : List Nat := [23, 24, 25, 30, 31, 32]

theorem rowsEventType_mem (k : W.RowKind) (v2 : Bool) : W.rowsEventType k v2 ∈ rowsTypes := by
  cases k <;> cases v2 <;> decide

/-- a packet whose type byte is not one of the six rows codes is left alone -/
theorem padPacket_other (cfg : W.Cfg) (rcs : List W.RowsChange) (b : Bytes) (typ : Nat) (h4 : b.getD 4 0 = UInt8.ofNat typ)
    (hlt : typ < 256) (hty : typ ∉ rowsTypes) : D.padPacket cfg rcs b = b := by
  unfold D.padPacket
  have : rcs.find? (fun c =>
      ((b.drop 19).take (W.rowsBody c.kind cfg.rowsV2 (if cfg.idw4 then 4 else 6) c.table.id c.flags c.extra c.table.cols
          c.presentBefore c.presentAfter c.rows).length
        == W.rowsBody c.kind cfg.rowsV2 (if cfg.idw4 then 4 else 6) c.table.id c.flags c.extra c.table.cols
          c.presentBefore c.presentAfter c.rows) && b.getD 4 0 == UInt8.ofNat (W.rowsEventType c.kind cfg.rowsV2)) = none := by
    rw [List.find?_eq_none]
    intro c _
    simp only [Bool.and_eq_true, beq_iff_eq, not_and]
    intro _ he
    rw [h4] at he
    have h1 := congrArg UInt8.toNat he
    simp only [UInt8.toNat_ofNat', Nat.mod_eq_of_lt hlt, Nat.mod_eq_of_lt (GV.C01b.rowsType_lt c.kind cfg.rowsV2)] at h1
    exact hty (h1 ▸ rowsEventType_mem c.kind cfg.rowsV2)
  simp only [this]


theorem rowsEventType_inj (k k' : W.RowKind) (v2 : Bool) (h : W.rowsEventType k v2 = W.rowsEventType k' v2) : k = k' := by
  cases k <;> cases k' <;> cases v2 <;> first | rfl | (simp [W.rowsEventType] at h)

/-- the side condition of the stream-level theorem: `D.padPacket` finds the change a packet was written for by comparing
    BODIES (a prefix test), over the rows changes `rcs` of the whole history.  Whenever the Spec bodies of a change of
    `rcs` and of a served change of the same kind are comparable (one is a prefix of the other), their padded bodies
    must be the same.  Decidable; holds in particular when no two rows changes of the same kind have comparable bodies
    unless they agree on every written field. -/
def PadClean (cfg : W.Cfg) (rcs served : List W.RowsChange) : Prop :=
  ∀ c ∈ rcs, ∀ c' ∈ served, c.kind = c'.kind →
    (bodyOf cfg c).take (bodyOf cfg c').length = (bodyOf cfg c').take (bodyOf cfg c).length →
    bodyP true cfg c = bodyP true cfg c'

theorem take_comparable (B B' T : Bytes) (h : (B' ++ T).take B.length = B) : B.take B'.length = B'.take B.length := by
  have h1 : B.take B'.length = (B' ++ T).take (min B.length B'.length) := by
    conv => lhs; rw [← h]
    rw [List.take_take, Nat.min_comm]
  rw [h1, List.take_append_of_le_length (Nat.min_le_right _ _)]
  by_cases hle : B.length ≤ B'.length
  · rw [Nat.min_eq_left hle]
  · have hge : B'.length ≤ B.length := by omega
    rw [Nat.min_eq_right hge, List.take_of_length_le (Nat.le_refl _), List.take_of_length_le hge]

/-- what `D.padPacket` does to the packet of a served rows change: nothing, or it swaps the body for the padded body of
    the SAME change (same header, same checksum bytes) -/
theorem padPacket_rows (cfg : W.Cfg) (rcs served : List W.RowsChange) (hclean : PadClean cfg rcs served)
    (c' : W.RowsChange) (hc' : c' ∈ served) (crc : Option Bytes) (m : W.EvMeta) (start : Nat) :
    D.padPacket cfg rcs (W.event crc m (W.rowsEventType c'.kind cfg.rowsV2) start (bodyOf cfg c')).1
        = (W.event crc m (W.rowsEventType c'.kind cfg.rowsV2) start (bodyOf cfg c')).1 ∨
    D.padPacket cfg rcs (W.event crc m (W.rowsEventType c'.kind cfg.rowsV2) start (bodyOf cfg c')).1
        = (W.event crc m (W.rowsEventType c'.kind cfg.rowsV2) start (bodyP true cfg c')).1 := by
  unfold D.padPacket
  simp only
  split
  · rename_i c hfind
    right
    have hmem : c ∈ rcs := List.mem_of_find?_eq_some hfind
    have hp := List.find?_some hfind
    simp only [Bool.and_eq_true, beq_iff_eq] at hp
    obtain ⟨hp1, hp2⟩ := hp
    change (List.take (bodyOf cfg c).length (List.drop 19 _)) = bodyOf cfg c at hp1
    rw [event_getD4] at hp2
    have hk : c.kind = c'.kind := by
      have h1 := congrArg UInt8.toNat hp2
      simp only [UInt8.toNat_ofNat', Nat.mod_eq_of_lt (GV.C01b.rowsType_lt _ _)] at h1
      exact (rowsEventType_inj _ _ _ h1).symm
    have hdrop : List.drop 19 (W.event crc m (W.rowsEventType c'.kind cfg.rowsV2) start (bodyOf cfg c')).1
        = bodyOf cfg c' ++ crc.getD [] := by
      rw [event_fst, List.drop_left' (GV.C16.header_length ..)]
    rw [hdrop] at hp1
    have hcomp := take_comparable _ _ _ hp1
    have hpe := hclean c hmem c' hc' hk hcomp
    have hlen : (bodyOf cfg c).length = (bodyOf cfg c').length := by
      rw [← rowsBodyP_length true c.kind, ← rowsBodyP_length true c'.kind]
      exact congrArg List.length hpe
    change List.take 19 _ ++ bodyP true cfg c ++ List.drop (19 + (bodyOf cfg c).length) _ = _
    rw [hpe, hlen, event_fst, event_fst,
      show (bodyP true cfg c').length = (bodyOf cfg c').length from rowsBodyP_length ..,
      List.take_left' (GV.C16.header_length ..), ← List.drop_drop, List.drop_left' (GV.C16.header_length ..),
      List.drop_left' rfl, List.append_assoc]
  · left; rfl


/-! ### the abstract events of a well-formed unit, by what the parser does with them -/

/-- a TABLE_MAP event of a rows change of `cs`, a ROWS event of one, or an event of any other type but
    FORMAT_DESCRIPTION -/
def AEvOK (cfg : W.Cfg) (cs : List W.RowsChange) (e : W.AEv) : Prop :=
  (∃ c ∈ cs, RowsOK cfg c ∧ e.typ = 19 ∧
      e.body = W.tableMapBody (if cfg.idw4 then 4 else 6) c.table.id 1 c.table.db c.table.name c.table.cols c.tmOptional ∧
      e.ts = c.ts) ∨
  (∃ c ∈ cs, RowsOK cfg c ∧ e.typ = W.rowsEventType c.kind cfg.rowsV2 ∧ e.body = bodyOf cfg c ∧ e.ts = c.ts) ∨
  (e.typ < 256 ∧ e.typ ≠ 15 ∧ e.typ ≠ 19 ∧ e.typ ∉ rowsTypes ∧ e.ts < 2 ^ 32)

/-- an event that makes the master move on to file `g`: a ROTATE naming it, or a STOP with a short name -/
def RotOK (e : W.AEv) : Prop :=
  ∀ g, rotOf e.tag = some g → e.body = W.rotateBody 4 g ∨ (e.body = [] ∧ g.length < 2 ^ 31)

theorem aevOK_mono {cfg : W.Cfg} {cs cs' : List W.RowsChange} (h : ∀ c ∈ cs, c ∈ cs') {e : W.AEv} (he : AEvOK cfg cs e) :
    AEvOK cfg cs' e := by
  rcases he with ⟨c, hc, r⟩ | ⟨c, hc, r⟩ | r
  · exact Or.inl ⟨c, h c hc, r⟩
  · exact Or.inr (Or.inl ⟨c, h c hc, r⟩)
  · exact Or.inr (Or.inr r)

theorem markStart_mem (l : List W.AEv) (e : W.AEv) (h : e ∈ W.markStart l) :
    ∃ e' ∈ l, ∃ b, e = { e' with unitStart := b } := by
  cases l with
  | nil => simp [W.markStart] at h
  | cons a l =>
    simp only [W.markStart, List.mem_cons] at h
    rcases h with rfl | h
    · exact ⟨a, List.mem_cons_self, true, rfl⟩
    · exact ⟨e, List.mem_cons_of_mem _ h, e.unitStart, rfl⟩

theorem mem_changeRows (cs : List W.Change) (c : W.RowsChange) (h : W.Change.rows c ∈ cs) : c ∈ changeRows cs := by
  induction cs with
  | nil => cases h
  | cons x cs ih =>
    rcases List.mem_cons.mp h with rfl | h'
    · simp [changeRows]
    · cases x <;> simp [changeRows, ih h']

theorem plain_ok (cfg : W.Cfg) (cs : List W.RowsChange) (typ : Nat) (body : Bytes) (ts : Nat) (tag : W.Tag) (us : Bool)
    (h1 : typ < 256) (h2 : typ ≠ 15) (h3 : typ ≠ 19) (h4 : typ ∉ rowsTypes) (h5 : ts < 2 ^ 32) :
    AEvOK cfg cs ⟨typ, body, ts, tag, us⟩ := Or.inr (Or.inr ⟨h1, h2, h3, h4, h5⟩)

theorem rotOK_none (typ : Nat) (body : Bytes) (ts : Nat) (tag : W.Tag) (us : Bool) (h : rotOf tag = none) :
    RotOK ⟨typ, body, ts, tag, us⟩ := by
  intro g hg; simp only [h] at hg; cases hg

theorem changeEvs_ok (cfg : W.Cfg) (ch : W.Change) (hok : ChangeOK cfg ch) (cs : List W.RowsChange)
    (hcs : ∀ c, ch = .rows c → c ∈ cs) : ∀ e ∈ W.changeEvs cfg ch, AEvOK cfg cs e ∧ RotOK e := by
  intro e he
  cases ch with
  | stmt s =>
    simp only [W.changeEvs, W.stmtEv, List.mem_cons, List.not_mem_nil, or_false] at he
    subst he
    exact ⟨plain_ok _ _ _ _ _ _ _ (by decide) (by decide) (by decide) (by decide) hok.1.ts, rotOK_none _ _ _ _ _ rfl⟩
  | rows c =>
    have hc := hcs c rfl
    simp only [W.changeEvs, List.mem_append, List.mem_cons, List.not_mem_nil, or_false] at he
    rcases he with he | rfl
    · split at he
      · simp only [List.mem_cons, List.not_mem_nil, or_false] at he
        subst he
        exact ⟨Or.inl ⟨c, hc, hok.1, rfl, rfl, rfl⟩, rotOK_none _ _ _ _ _ rfl⟩
      · cases he
    · exact ⟨Or.inr (Or.inl ⟨c, hc, hok.1, rfl, rfl, rfl⟩), rotOK_none _ _ _ _ _ rfl⟩

theorem unitEvs_ok (cfg : W.Cfg) (u : W.Unit) (hu : UnitOK cfg u) :
    ∀ e ∈ W.unitEvs cfg u, AEvOK cfg (unitRows u) e ∧ RotOK e := by
  intro e he
  cases u with
  | tx b cs close ts =>
    obtain ⟨_, hcs, _, hts⟩ := hu
    simp only [W.unitEvs] at he
    obtain ⟨e', he', bb, rfl⟩ := markStart_mem _ _ he
    show AEvOK cfg (unitRows (.tx b cs close ts)) e' ∧ RotOK e'
    simp only [List.mem_append, List.mem_cons, List.not_mem_nil, or_false, List.mem_flatMap] at he'
    rcases he' with (rfl | ⟨ch, hch, he'⟩) | rfl
    · exact ⟨plain_ok _ _ _ _ _ _ _ (by decide) (by decide) (by decide) (by decide) hts, rotOK_none _ _ _ _ _ rfl⟩
    · exact changeEvs_ok cfg ch (hcs ch hch) _ (fun c hc => mem_changeRows cs c (hc ▸ hch)) e' he'
    · cases close <;>
        exact ⟨plain_ok _ _ _ _ _ _ _ (by decide) (by decide) (by decide) (by decide) hts, rotOK_none _ _ _ _ _ rfl⟩
  | ddl s =>
    simp only [W.unitEvs, W.markStart, W.stmtEv, List.mem_cons, List.not_mem_nil, or_false] at he
    subst he
    exact ⟨plain_ok _ _ _ _ _ _ _ (by decide) (by decide) (by decide) (by decide) hu.1.ts, rotOK_none _ _ _ _ _ rfl⟩
  | stmtDML s =>
    simp only [W.unitEvs, W.markStart, W.stmtEv, List.mem_cons, List.not_mem_nil, or_false] at he
    subst he
    exact ⟨plain_ok _ _ _ _ _ _ _ (by decide) (by decide) (by decide) (by decide) hu.1.ts, rotOK_none _ _ _ _ _ rfl⟩
  | unknownStmt s =>
    simp only [W.unitEvs, W.markStart, W.stmtEv, List.mem_cons, List.not_mem_nil, or_false] at he
    subst he
    exact ⟨plain_ok _ _ _ _ _ _ _ (by decide) (by decide) (by decide) (by decide) hu.1.ts, rotOK_none _ _ _ _ _ rfl⟩
  | autoRows c =>
    simp only [W.unitEvs] at he
    obtain ⟨e', he', bb, rfl⟩ := markStart_mem _ _ he
    show AEvOK cfg (unitRows (.autoRows c)) e' ∧ RotOK e'
    simp only [List.mem_append, List.mem_cons, List.not_mem_nil, or_false] at he'
    rcases he' with he' | rfl
    · split at he'
      · simp only [List.mem_cons, List.not_mem_nil, or_false] at he'
        subst he'
        exact ⟨Or.inl ⟨c, by simp [unitRows], hu.1, rfl, rfl, rfl⟩, rotOK_none _ _ _ _ _ rfl⟩
      · cases he'
    · exact ⟨Or.inr (Or.inl ⟨c, by simp [unitRows], hu.1, rfl, rfl, rfl⟩), rotOK_none _ _ _ _ _ rfl⟩
  | rotate f =>
    simp only [W.unitEvs, W.markStart, List.mem_cons, List.not_mem_nil, or_false] at he
    subst he
    refine ⟨plain_ok _ _ _ _ _ _ _ (by decide) (by decide) (by decide) (by decide) (by decide), ?_⟩
    intro g hg
    simp only [rotOf, Option.some.injEq] at hg
    subst hg
    exact Or.inl rfl
  | restart f =>
    simp only [W.unitEvs, W.markStart, List.mem_cons, List.not_mem_nil, or_false] at he
    subst he
    refine ⟨plain_ok _ _ _ _ _ _ _ (by decide) (by decide) (by decide) (by decide) (by decide), ?_⟩
    intro g hg
    simp only [rotOf, Option.some.injEq] at hg
    subst hg
    exact Or.inr ⟨rfl, hu⟩
  | gtid sid gno =>
    simp only [W.unitEvs, W.markStart, List.mem_cons, List.not_mem_nil, or_false] at he
    subst he
    exact ⟨plain_ok _ _ _ _ _ _ _ (by decide) (by decide) (by decide) (by decide) (by decide), rotOK_none _ _ _ _ _ rfl⟩
  | anonGtid =>
    simp only [W.unitEvs, W.markStart, List.mem_cons, List.not_mem_nil, or_false] at he
    subst he
    exact ⟨plain_ok _ _ _ _ _ _ _ (by decide) (by decide) (by decide) (by decide) (by decide), rotOK_none _ _ _ _ _ rfl⟩
  | prevGtids blk =>
    simp only [W.unitEvs, W.markStart, List.mem_cons, List.not_mem_nil, or_false] at he
    subst he
    exact ⟨plain_ok _ _ _ _ _ _ _ (by decide) (by decide) (by decide) (by decide) (by decide), rotOK_none _ _ _ _ _ rfl⟩
  | heartbeat =>
    simp only [W.unitEvs, W.markStart, List.mem_cons, List.not_mem_nil, or_false] at he
    subst he
    exact ⟨plain_ok _ _ _ _ _ _ _ (by decide) (by decide) (by decide) (by decide) (by decide), rotOK_none _ _ _ _ _ rfl⟩
  | unknownEvent t body =>
    obtain ⟨hlt, hty⟩ := hu
    simp only [W.unitEvs, W.markStart, List.mem_cons, List.not_mem_nil, or_false] at he
    subst he
    simp only [handledTypes, List.mem_cons, List.not_mem_nil, or_false, not_or] at hty
    refine ⟨plain_ok _ _ _ _ _ _ _ hlt hty.1 hty.2.2.2.2.1 ?_ (by decide), rotOK_none _ _ _ _ _ rfl⟩
    simp only [rowsTypes, List.mem_cons, List.not_mem_nil, or_false, not_or]
    exact ⟨hty.2.2.2.2.2.1, hty.2.2.2.2.2.2.1, hty.2.2.2.2.2.2.2.1, hty.2.2.2.2.2.2.2.2.1, hty.2.2.2.2.2.2.2.2.2.1,
      hty.2.2.2.2.2.2.2.2.2.2.1⟩

theorem histEvs_ok (cfg : W.Cfg) (us : List W.Unit) (hu : ∀ u ∈ us, UnitOK cfg u) :
    ∀ e ∈ us.flatMap (W.unitEvs cfg), AEvOK cfg (histRows us) e ∧ RotOK e := by
  intro e he
  obtain ⟨u, hmem, he⟩ := List.mem_flatMap.mp he
  obtain ⟨h1, h2⟩ := unitEvs_ok cfg u (hu u hmem) e he
  exact ⟨aevOK_mono (fun c hc => List.mem_flatMap.mpr ⟨u, hmem, hc⟩) h1, h2⟩

/-- every laid-out event is an abstract event laid somewhere, the artificial ROTATE behind a rotating one, or the
    FORMAT_DESCRIPTION event at the head of a file -/
theorem mem_layoutAux_shape (cfg : W.Cfg) : ∀ (es : List W.AEv) (f : Bytes) (o : Nat) (x : W.Laid),
    x ∈ W.layoutAux cfg es f o →
    (∃ e ∈ es, ∃ file off, x = hereOf cfg e file off) ∨
    (∃ e ∈ es, ∃ file off g, rotOf e.tag = some g ∧ x = fakeR cfg file (endOf cfg off e.body) g) ∨
    (∃ g, x = fdeL cfg g)
  | [], f, o, x, hx => by simp [W.layoutAux] at hx
  | e :: es, f, o, x, hx => by
    have lift : ((∃ e' ∈ es, ∃ file off, x = hereOf cfg e' file off) ∨
        (∃ e' ∈ es, ∃ file off g, rotOf e'.tag = some g ∧ x = fakeR cfg file (endOf cfg off e'.body) g) ∨
        (∃ g, x = fdeL cfg g)) →
        ((∃ e' ∈ e :: es, ∃ file off, x = hereOf cfg e' file off) ∨
        (∃ e' ∈ e :: es, ∃ file off g, rotOf e'.tag = some g ∧ x = fakeR cfg file (endOf cfg off e'.body) g) ∨
        (∃ g, x = fdeL cfg g)) := by
      rintro (⟨e', h1, r⟩ | ⟨e', h1, r⟩ | r)
      · exact Or.inl ⟨e', List.mem_cons_of_mem _ h1, r⟩
      · exact Or.inr (Or.inl ⟨e', List.mem_cons_of_mem _ h1, r⟩)
      · exact Or.inr (Or.inr r)
    cases hr : rotOf e.tag with
    | none =>
      rw [layoutAux_plain _ _ _ _ _ hr] at hx
      rcases List.mem_cons.mp hx with rfl | hx
      · exact Or.inl ⟨e, List.mem_cons_self, f, o, rfl⟩
      · exact lift (mem_layoutAux_shape cfg es _ _ x hx)
    | some g =>
      rw [layoutAux_rot _ _ _ _ _ g hr] at hx
      simp only [List.mem_cons] at hx
      rcases hx with rfl | rfl | rfl | hx
      · exact Or.inl ⟨e, List.mem_cons_self, f, o, rfl⟩
      · exact Or.inr (Or.inl ⟨e, List.mem_cons_self, f, o, g, hr, rfl⟩)
      · exact Or.inr (Or.inr ⟨g, rfl⟩)
      · exact lift (mem_layoutAux_shape cfg es _ _ x hx)


/-! ### one packet at a time: an invariant of the parser state, kept by every packet served -/

/-- the format has been seen and the table cache holds only tables of the served rows changes (decoded map + the
    mapper's answer) -/
structure PInv (cfg : W.Cfg) (sv : List W.RowsChange) (st : PState) : Prop where
  fmt : Ready cfg st
  cache : ∀ id tc, findTable st.tables id = some tc → ∃ c ∈ sv, c.table.id = id ∧ tc = ⟨tmOf c.table, infoOf c.table⟩

theorem pinv_keep {cfg : W.Cfg} {sv : List W.RowsChange} {st st' : PState} (h : PInv cfg sv st)
    (hf : st'.format = st.format) (ht : st'.tables = st.tables) : PInv cfg sv st' := by
  refine ⟨?_, ?_⟩
  · have := h.fmt; unfold Ready at this ⊢; rw [hf, this]
  · rw [ht]; exact h.cache

/-- what is shown of every packet `b` served, in every state satisfying the invariant -/
def StepOK (env : Env) (cfg : W.Cfg) (rcs sv : List W.RowsChange) (st : PState) (b : Bytes) : Prop :=
  stepEvent env st (D.padPacket cfg rcs b) = stepEvent env st b ∧
  (∀ st', stepEvent env st b = .cont st' → PInv cfg sv st') ∧
  (∀ tx a, stepEvent env st b = .deliver tx a → PInv cfg sv a)

/-- what is asked of the ROWS packets of the served changes: `D.padPacket` does not change what `stepEvent` does with them
    (two ways to get it below: `rowsPad_of_clean`, `rowsPad_of_wf`) -/
def RowsPad (env : Env) (cfg : W.Cfg) (rcs sv : List W.RowsChange) : Prop :=
  ∀ st, PInv cfg sv st → ∀ c ∈ sv, RowsOK cfg c → ∀ off, endOf cfg off (bodyOf cfg c) < 2 ^ 32 →
    stepEvent env st (D.padPacket cfg rcs (bytesAt cfg off (W.rowsEventType c.kind cfg.rowsV2) c.ts (bodyOf cfg c)))
      = stepEvent env st (bytesAt cfg off (W.rowsEventType c.kind cfg.rowsV2) c.ts (bodyOf cfg c))

theorem stepOK_notFT {env : Env} {cfg : W.Cfg} {rcs sv : List W.RowsChange} {st : PState} {b : Bytes}
    (hI : PInv cfg sv st) (hpad : stepEvent env st (D.padPacket cfg rcs b) = stepEvent env st b)
    (hn : NotFT (classify env st b)) : StepOK env cfg rcs sv st b := by
  obtain ⟨k1, k2⟩ := stepD_keeps st _ hn
  exact ⟨hpad, fun st' hs => pinv_keep hI (k1 st' hs).1 (k1 st' hs).2, fun tx a hs => pinv_keep hI (k2 tx a hs).1 (k2 tx a hs).2⟩

theorem bytesAt_getD4 (cfg : W.Cfg) (off typ ts : Nat) (body : Bytes) : (bytesAt cfg off typ ts body).getD 4 0 = UInt8.ofNat typ :=
  event_getD4 ..

/-- an event of a type other than FORMAT_DESCRIPTION / TABLE_MAP / ROWS -/
theorem stepOK_plain (env : Env) (cfg : W.Cfg) (rcs sv : List W.RowsChange) (st : PState) (hI : PInv cfg sv st)
    (off typ ts : Nat) (body : Bytes) (h1 : typ < 256) (h2 : typ ≠ 15) (h3 : typ ≠ 19) (h4 : typ ∉ rowsTypes)
    (hts : ts < 2 ^ 32) (hb : endOf cfg off body < 2 ^ 32) : StepOK env cfg rcs sv st (bytesAt cfg off typ ts body) := by
  have hok := evOK_at cfg off ts body hts hb
  obtain ⟨p1, p2, p3, p4, _, _⟩ := C01.pre st.format (W.crcOf cfg off) { ts := ts } typ off body
    (GV.C01b.crc_pre hI.fmt (crcOf_ok cfg off)) (GV.C01b.meta_pre typ h1 hok)
  refine stepOK_notFT hI ?_ (classify_notFT env st _ _ typ p1 p2 (GV.C01b.notZero hI.fmt) p3 p4 h2 h3)
  rw [padPacket_other cfg rcs _ typ (bytesAt_getD4 ..) h1 h4]

/-- the TABLE_MAP event of a served rows change -/
theorem stepOK_tm (env : Env) (cfg : W.Cfg) (rcs sv : List W.RowsChange) (st : PState) (hI : PInv cfg sv st)
    (htb : ∀ c1 ∈ sv, ∀ c2 ∈ sv, c1.table.id = c2.table.id → c1.table = c2.table)
    (hm : ∀ c ∈ sv, env.mapper c.table.db c.table.name = some (infoOf c.table))
    (c : W.RowsChange) (hc : c ∈ sv) (hrows : RowsOK cfg c) (off : Nat)
    (hb : endOf cfg off (W.tableMapBody (if cfg.idw4 then 4 else 6) c.table.id 1 c.table.db c.table.name c.table.cols
      c.tmOptional) < 2 ^ 32) :
    StepOK env cfg rcs sv st (bytesAt cfg off 19 c.ts
      (W.tableMapBody (if cfg.idw4 then 4 else 6) c.table.id 1 c.table.db c.table.name c.table.cols c.tmOptional)) := by
  have hpad := padPacket_other cfg rcs _ 19 (bytesAt_getD4 cfg off 19 c.ts
    (W.tableMapBody (if cfg.idw4 then 4 else 6) c.table.id 1 c.table.db c.table.name c.table.cols c.tmOptional))
    (by decide) (by decide)
  refine ⟨by rw [hpad], ?_, ?_⟩
  · intro st' hs
    cases hf : findTable st.tables c.table.id with
    | none =>
      have hcl := cl_tm_new env st cfg hI.fmt off c.ts c.table hrows.table c.tmOptional hrows.ts hb hf (hm c hc)
      simp only [stepEvent, hcl, stepD, hf, Option.isSome_none, Bool.false_eq_true, if_false, Step.cont.injEq] at hs
      subst hs
      refine ⟨hI.fmt, ?_⟩
      intro id tc hid
      by_cases hj : id = c.table.id
      · subst hj
        rw [GV.C15.findTable_append_same st.tables _ _ hf] at hid
        exact ⟨c, hc, rfl, (Option.some.inj hid).symm⟩
      · rw [GV.C15.findTable_append_other st.tables _ _ id hj] at hid
        exact hI.cache id tc hid
    | some old =>
      obtain ⟨c0, hc0, hid0, rfl⟩ := hI.cache _ _ hf
      have ht0 : c0.table = c.table := htb c0 hc0 c hc hid0
      have hcl := cl_tm_known env st cfg hI.fmt off c.ts c.table hrows.table c.tmOptional hrows.ts hb _ hf
        (by rw [ht0]; exact ⟨rfl, rfl⟩)
      simp only [stepEvent, hcl, stepD, if_true, Step.cont.injEq] at hs
      subst hs
      refine ⟨hI.fmt, ?_⟩
      intro id tc hid
      by_cases hj : id = c.table.id
      · subst hj
        rw [GV.C15.findTable_update_same st.tables _ _ _ hf] at hid
        refine ⟨c, hc, rfl, ?_⟩
        rw [← Option.some.inj hid, ht0]
      · rw [GV.C15.findTable_update_other st.tables _ _ id hj] at hid
        exact hI.cache id tc hid
  · intro tx a hs
    cases hf : findTable st.tables c.table.id with
    | none =>
      have hcl := cl_tm_new env st cfg hI.fmt off c.ts c.table hrows.table c.tmOptional hrows.ts hb hf (hm c hc)
      simp [stepEvent, hcl, stepD, hf] at hs
    | some old =>
      obtain ⟨c0, hc0, hid0, rfl⟩ := hI.cache _ _ hf
      have ht0 : c0.table = c.table := htb c0 hc0 c hc hid0
      have hcl := cl_tm_known env st cfg hI.fmt off c.ts c.table hrows.table c.tmOptional hrows.ts hb _ hf
        (by rw [ht0]; exact ⟨rfl, rfl⟩)
      simp [stepEvent, hcl, stepD] at hs

/-- the ROWS event of a served rows change -/
theorem stepOK_rows (env : Env) (cfg : W.Cfg) (rcs sv : List W.RowsChange) (st : PState) (hI : PInv cfg sv st)
    (hR : RowsPad env cfg rcs sv)
    (c : W.RowsChange) (hc : c ∈ sv) (hrows : RowsOK cfg c) (off : Nat) (hb : endOf cfg off (bodyOf cfg c) < 2 ^ 32) :
    StepOK env cfg rcs sv st (bytesAt cfg off (W.rowsEventType c.kind cfg.rowsV2) c.ts (bodyOf cfg c)) := by
  have hlt := GV.C01b.rowsType_lt c.kind cfg.rowsV2
  have hok := evOK_at cfg off c.ts (bodyOf cfg c) hrows.ts hb
  obtain ⟨p1, p2, p3, p4, _, _⟩ := C01.pre st.format (W.crcOf cfg off) { ts := c.ts } (W.rowsEventType c.kind cfg.rowsV2) off
    (bodyOf cfg c) (GV.C01b.crc_pre hI.fmt (crcOf_ok cfg off)) (GV.C01b.meta_pre _ hlt hok)
  have h15 : W.rowsEventType c.kind cfg.rowsV2 ≠ 15 := by cases c.kind <;> cases cfg.rowsV2 <;> decide
  have h19 : W.rowsEventType c.kind cfg.rowsV2 ≠ 19 := by cases c.kind <;> cases cfg.rowsV2 <;> decide
  exact stepOK_notFT hI (hR st hI c hc hrows off hb)
    (classify_notFT env st _ _ _ p1 p2 (GV.C01b.notZero hI.fmt) p3 p4 h15 h19)

/-- first way: the side condition `PadClean` (nothing is asked of the rows changes that are not served) -/
theorem rowsPad_of_clean (env : Env) (cfg : W.Cfg) (rcs sv : List W.RowsChange)
    (htb : ∀ c1 ∈ sv, ∀ c2 ∈ sv, c1.table.id = c2.table.id → c1.table = c2.table)
    (hclean : PadClean cfg rcs sv) : RowsPad env cfg rcs sv := by
  intro st hI c hc hrows off hb
  have hok := evOK_at cfg off c.ts (bodyOf cfg c) hrows.ts hb
  rcases padPacket_rows cfg rcs sv hclean c hc (W.crcOf cfg off) { ts := c.ts } off with h | h
  · rw [bytesAt, h]
  · rw [bytesAt, h]
    unfold stepEvent
    rw [classify_pad_eq true env st cfg hI.fmt _ (crcOf_ok cfg off) { ts := c.ts } off c hrows rfl hok]
    intro tc htc
    obtain ⟨c0, hc0, hid0, rfl⟩ := hI.cache _ _ htc
    rw [htb c0 hc0 c hc hid0]

/-- the artificial ROTATE between two files -/
theorem stepOK_fakeR (env : Env) (cfg : W.Cfg) (rcs sv : List W.RowsChange) (st : PState) (hI : PInv cfg sv st)
    (seed : Nat) (g : Bytes) (hl : 27 + g.length + (if cfg.crc then 4 else 0) < 2 ^ 32) :
    StepOK env cfg rcs sv st (fakeRotBytes cfg seed 4 g) := by
  have hcl := cl_fakeRot env st cfg hI.fmt seed 4 g (by decide) hl
  refine stepOK_notFT hI ?_ (by rw [hcl]; exact True.intro)
  rw [padPacket_other cfg rcs (fakeRotBytes cfg seed 4 g) 4 (by unfold fakeRotBytes; exact event_getD4 ..) (by decide)
    (by decide)]

/-- the FORMAT_DESCRIPTION event at the head of a file -/
theorem stepOK_fde (env : Env) (cfg : W.Cfg) (rcs sv : List W.RowsChange) (st : PState) (hI : PInv cfg sv st) :
    StepOK env cfg rcs sv st (W.fdeEvent cfg 4 none).1 := by
  have hcl := C01_classify_fde env st cfg 4 none (by decide) (by simp)
  have hpad : D.padPacket cfg rcs (W.fdeEvent cfg 4 none).1 = (W.fdeEvent cfg 4 none).1 :=
    padPacket_other cfg rcs _ 15 (event_getD4 ..) (by decide) (by decide)
  refine ⟨by rw [hpad], ?_, ?_⟩
  · intro st' hs
    simp only [stepEvent, hcl, stepD, Step.cont.injEq] at hs
    subst hs
    exact ⟨rfl, hI.cache⟩
  · intro tx a hs
    simp [stepEvent, hcl, stepD] at hs


theorem crcN_eq (cfg : W.Cfg) (off : Nat) : crcN cfg off = if cfg.crc then 4 else 0 := by
  unfold crcN W.crcOf Props.C16.crcLen
  cases cfg.crc <;> simp

/-- every packet of the laid-out units keeps the invariant and is stepped over alike with and without padding -/
theorem stepOK_laid (env : Env) (cfg : W.Cfg) (rcs : List W.RowsChange) (us : List W.Unit)
    (hu : ∀ u ∈ us, UnitOK cfg u)
    (htb : ∀ c1 ∈ histRows us, ∀ c2 ∈ histRows us, c1.table.id = c2.table.id → c1.table = c2.table)
    (hm : MapperAgrees env us) (hR : RowsPad env cfg rcs (histRows us)) (f : Bytes) (o : Nat)
    (hb : Bnd (W.layoutAux cfg (us.flatMap (W.unitEvs cfg)) f o)) (x : W.Laid)
    (hx : x ∈ W.layoutAux cfg (us.flatMap (W.unitEvs cfg)) f o) (st : PState) (hI : PInv cfg (histRows us) st) :
    StepOK env cfg rcs (histRows us) st x.bytes := by
  have hnext := hb x hx
  rcases mem_layoutAux_shape cfg _ _ _ x hx with ⟨e, he, file, off, rfl⟩ | ⟨e, he, file, off, g, hrot, rfl⟩ | ⟨g, rfl⟩
  · obtain ⟨hk, _⟩ := histEvs_ok cfg us hu e he
    have hb' : endOf cfg off e.body < 2 ^ 32 := hnext
    show StepOK env cfg rcs (histRows us) st (bytesAt cfg off e.typ e.ts e.body)
    rcases hk with ⟨c, hc, hrows, h1, h2, h3⟩ | ⟨c, hc, hrows, h1, h2, h3⟩ | ⟨h1, h2, h3, h4, h5⟩
    · rw [h1, h2, h3]
      rw [h2] at hb'
      exact stepOK_tm env cfg rcs _ st hI htb hm c hc hrows off hb'
    · rw [h1, h2, h3]
      rw [h2] at hb'
      exact stepOK_rows env cfg rcs _ st hI hR c hc hrows off hb'
    · exact stepOK_plain env cfg rcs _ st hI off e.typ e.ts e.body h1 h2 h3 h4 h5 hb'
  · obtain ⟨_, hro⟩ := histEvs_ok cfg us hu e he
    have hb' : endOf cfg off e.body < 2 ^ 32 := hnext
    show StepOK env cfg rcs (histRows us) st (fakeRotBytes cfg (endOf cfg off e.body) 4 g)
    apply stepOK_fakeR env cfg rcs _ st hI
    unfold endOf at hb'
    rw [crcN_eq] at hb'
    rcases hro g hrot with h | ⟨_, h⟩
    · rw [h] at hb'
      have hlen : (W.rotateBody 4 g).length = 8 + g.length := by simp [W.rotateBody]
      rw [hlen] at hb'
      omega
    · simp only [Nat.reducePow] at h ⊢
      split <;> omega
  · exact stepOK_fde env cfg rcs _ st hI

theorem fdeEvent_getD4 (cfg : W.Cfg) (start : Nat) (nx : Option Nat) : (W.fdeEvent cfg start nx).1.getD 4 0 = UInt8.ofNat 15 := by
  unfold W.fdeEvent; exact event_getD4 ..

/-- the first two packets of a dump (artificial ROTATE, a FORMAT_DESCRIPTION event) are not ROWS events; after them
    the invariant holds and every later packet is covered by `StepOK` -/
theorem pad_preamble (cfg : W.Cfg) (env : Env) (rcs sv : List W.RowsChange) (p : W.Pos) (fdeB : Bytes) (l : List W.Laid)
    (hl : 27 + p.file.length + (if cfg.crc then 4 else 0) < 2 ^ 32)
    (hfde : classify env (PState.init (posOf p)) fdeB = .format (fmtOf cfg)) (hfde4 : fdeB.getD 4 0 = UInt8.ofNat 15)
    (hall : ∀ x ∈ l, ∀ st, PInv cfg sv st → StepOK env cfg rcs sv st x.bytes)
    (acc : Transaction → Bool) (tail : List Input) (k : Nat) :
    parseEvents env acc (PState.init (posOf p))
        ((((fakeRotBytes cfg 0 p.offset p.file :: fdeB :: l.map (·.bytes)).map (D.padPacket cfg rcs)).take k).map Input.event
          ++ tail)
      = parseEvents env acc (PState.init (posOf p))
        (((fakeRotBytes cfg 0 p.offset p.file :: fdeB :: l.map (·.bytes)).take k).map Input.event ++ tail) := by
  have hfake := cl_fakeRot_first env (PState.init (posOf p)) cfg rfl 0 p.offset p.file hl
  have hp1 : D.padPacket cfg rcs (fakeRotBytes cfg 0 p.offset p.file) = fakeRotBytes cfg 0 p.offset p.file :=
    padPacket_other cfg rcs _ 4 (by unfold fakeRotBytes; exact event_getD4 ..) (by decide) (by decide)
  have hp2 : D.padPacket cfg rcs fdeB = fdeB := padPacket_other cfg rcs _ 15 hfde4 (by decide) (by decide)
  rw [List.map_cons, List.map_cons, hp1, hp2]
  match k with
  | 0 => rfl
  | 1 => rfl
  | k + 2 =>
    simp only [List.take_succ_cons, List.map_cons, List.cons_append, parseEvents, stepEvent, hfake, hfde, stepD]
    rw [← List.map_take]
    apply parse_map_congr env (D.padPacket cfg rcs) (PInv cfg sv) acc tail
    · refine ⟨rfl, ?_⟩
      intro id tc hf
      simp [PState.init, findTable] at hf
    · intro b hb st hI
      obtain ⟨x, hx, rfl⟩ := List.mem_map.mp (List.mem_of_mem_take hb)
      exact hall x hx st hI

/-- stream level: feeding the padded packets instead of the Spec's gives the same outcome — any handler, any cut, ANY
    continuation `tail` of the input -/
theorem pad_lands (cfg : W.Cfg) (env : Env) (h : W.History) (p : W.Pos) (hwf : WFFrom cfg h p)
    (hl : Lands cfg h p) (hm : MapperAgrees env (unitsFrom cfg h p)) (rcs : List W.RowsChange)
    (hR : RowsPad env cfg rcs (histRows (unitsFrom cfg h p)))
    (acc : Transaction → Bool) (tail : List Input) (k : Nat) :
    parseEvents env acc (PState.init (posOf p))
        ((((W.serve cfg h p).map (D.padPacket cfg rcs)).take k).map Input.event ++ tail)
      = parseEvents env acc (PState.init (posOf p)) (((W.serve cfg h p).take k).map Input.event ++ tail) := by
  have hart := C01_classify_fde env (PState.init (posOf p)) cfg 4 (some 0) (by decide)
    (by intro n hn; cases hn; decide)
  have hreal := C01_classify_fde env (PState.init (posOf p)) cfg 4 none (by decide) (by simp)
  obtain ⟨hlen, hu, htb, _, hoff⟩ := hwf
  rcases served_shape cfg h p hl with hnil | ⟨us₁, us₂, hsplit, hus, hcase⟩
  · rw [serve_nil cfg h p hnil]
    exact pad_preamble cfg env rcs [] p _ [] hlen hart (fdeEvent_getD4 ..) (by intro x hx; cases hx) acc tail k
  · rw [hus] at hu htb hm hR
    rcases hcase with ⟨x, rest, o, hfp, hnf, hlay⟩ | hlay
    · have hs := serve_unit cfg h p x rest hfp hnf
      change ∀ y ∈ served cfg h p, y.next < 2 ^ 32 at hoff
      rw [hs, ← hfp]
      rw [hlay] at hoff ⊢
      exact pad_preamble cfg env rcs _ p _ _ hlen hart (fdeEvent_getD4 ..)
        (fun y hy st hI => stepOK_laid env cfg rcs us₂ hu htb hm hR _ _ hoff y hy st hI) acc tail k
    · have hs := serve_fileHead cfg h p _ _ hlay rfl
      change ∀ y ∈ served cfg h p, y.next < 2 ^ 32 at hoff
      rw [hlay] at hoff
      have hb2 := (bnd_cons hoff).2
      have hbytes : (fdeL cfg p.file).bytes = (W.fdeEvent cfg 4 none).1 := rfl
      rw [hs, hbytes]
      exact pad_preamble cfg env rcs _ p _ _ hlen hreal (fdeEvent_getD4 ..)
        (fun y hy st hI => stepOK_laid env cfg rcs us₂ hu htb hm hR _ _ hb2 y hy st hI) acc tail k


/-- model level, packaged: the padded body and the Spec body decode to rows the reader cannot tell apart -/
theorem rows_pad_same (pad : Bool) (f : Format) (hf : f.headerLength = 19) (hdr : Bytes) (hh : hdr.length = 19)
    (k : W.RowKind) (v2 : Bool) (idw id flags : Nat) (hidw : idw = 4 ∨ idw = 6)
    (h4 : hdr[4]? = some (UInt8.ofNat (W.rowsEventType k v2)))
    (hhs : f.headerSize (W.rowsEventType k v2) = .ok (if idw = 4 then 6 else if v2 then 10 else 8))
    (hfl : flags < 65536) (extra : Bytes) (hex : extra.length < 65534)
    (cols : List (W.ColDef × Bool)) (hne : cols ≠ []) (hn : cols.length < 2 ^ 31)
    (pb pa : List Bool) (hpb : pb.length = cols.length) (hpa : pa.length = cols.length)
    (rows : List RowV)
    (hrows : ∀ r ∈ rows, (k ≠ .write → ImgOK (W.selectPresent pb cols) r.1) ∧ (k ≠ .delete → ImgOK (W.selectPresent pa cols) r.2))
    (hwide : ∀ r ∈ rows, 0 < ((if k ≠ .write then W.imageBytes ((W.selectPresent pb cols).map (·.1)) r.1 else []) ++
                              (if k ≠ .delete then W.imageBytes ((W.selectPresent pa cols).map (·.1)) r.2 else [])).length) :
    ∃ rsP rs0,
      M.rows f { flags := 0, database := [], name := [], types := cols.map (fun c => UInt8.ofNat c.1.typ),
                 canBeNull := ⟨[], 0⟩, metadata := cols.map (fun c => c.1.md) }
          (hdr ++ D.rowsBodyP pad k v2 idw id flags extra (cols.map (·.1)) pb pa rows) = .ok rsP ∧
      M.rows f { flags := 0, database := [], name := [], types := cols.map (fun c => UInt8.ofNat c.1.typ),
                 canBeNull := ⟨[], 0⟩, metadata := cols.map (fun c => c.1.md) }
          (hdr ++ W.rowsBody k v2 idw id flags extra (cols.map (·.1)) pb pa rows) = .ok rs0 ∧
      RowsSame rsP rs0 ∧ rs0.rows.length = rows.length ∧
      ∀ (i : Nat) r0, rs0.rows[i]? = some r0 →
        (k ≠ .write → rs0.identifyColumns.bitCount = .ok r0.nullIdentify.count) ∧
        (k ≠ .delete → rs0.dataColumns.bitCount = .ok r0.nullData.count) := by
  have hkw : ((k != .write) = true) ↔ k ≠ .write := by cases k <;> decide
  have hkd : ((k != .delete) = true) ↔ k ≠ .delete := by cases k <;> decide
  have hP := rows_padded pad f hf hdr hh k v2 idw id flags hidw h4 hhs hfl extra hex cols hne hn pb pa hpb hpa rows hrows hwide
  have h0 := rows_padded false f hf hdr hh k v2 idw id flags hidw h4 hhs hfl extra hex cols hne hn pb pa hpb hpa rows hrows hwide
  rw [rowsBodyP_false] at h0
  refine ⟨_, _, hP, h0, rowsG_same pad false k flags cols pb pa hpb hpa rows hrows, by simp [rowsG, padRows], ?_⟩
  intro i r0 hr0
  simp only [rowsG, padRows, List.map_map, List.getElem?_map, Option.map_eq_some_iff] at hr0
  obtain ⟨r, _, rfl⟩ := hr0
  refine ⟨fun h => ?_, fun h => ?_⟩
  · have hb := hkw.mpr h
    simp only [rowsG, mkRowG, Function.comp, hb, if_true]
    have := bitCount_enc (bmEnc_bmBytes false pb)
    rw [hpb] at this
    rw [this, sel_length pb cols hpb]
  · have hb := hkd.mpr h
    simp only [rowsG, mkRowG, Function.comp, hb, if_true]
    have := bitCount_enc (bmEnc_bmBytes false pa)
    rw [hpa] at this
    rw [this, sel_length pa cols hpa]

instance (cfg : W.Cfg) (rcs served : List W.RowsChange) : Decidable (PadClean cfg rcs served) := by
  unfold PadClean; infer_instance

/-- the driver's list of the rows changes of a unit is `unitRows` -/
theorem rowsOfUnit_eq (u : W.Unit) : D.rowsOfUnit u = unitRows u := by
  cases u <;> try rfl
  rename_i b cs close ts
  simp only [D.rowsOfUnit, unitRows]
  induction cs with
  | nil => rfl
  | cons c cs ih => cases c <;> simp [changeRows, ih]

theorem rcs_eq (h : W.History) : h.flatMap D.rowsOfUnit = histRows h := by
  unfold histRows
  congr 1
  funext u
  exact rowsOfUnit_eq u

/-- the whole padded stream, every transaction accepted, then the channel closes -/
theorem pad_clean_run (cfg : W.Cfg) (env : Env) (h : W.History) (p : W.Pos) (hwf : WFFrom cfg h p)
    (hl : Lands cfg h p) (hm : MapperAgrees env (unitsFrom cfg h p)) (rcs : List W.RowsChange)
    (hR : RowsPad env cfg rcs (histRows (unitsFrom cfg h p))) :
    parseEvents env (fun _ => true) (PState.init (posOf p))
        (((W.serve cfg h p).map (D.padPacket cfg rcs)).map Input.event ++ [Input.closed])
      = ⟨(W.expected cfg h p).map (toTx env.ext), (W.expected cfg h p).map (toTx env.ext),
         posOf (W.endPos cfg h p), false, false⟩ := by
  have := pad_lands cfg env h p hwf hl hm rcs hR (fun _ => true) [Input.closed] (W.serve cfg h p).length
  rw [List.take_of_length_le (by simp), List.take_of_length_le (Nat.le_refl _)] at this
  rw [this]
  exact resume_lands cfg env h p hwf hl hm


/-- when the packet's own change is the first of the list, `D.padPacket` re-writes the packet with its padded body -/
theorem padPacket_head (cfg : W.Cfg) (crc : Option Bytes) (m : W.EvMeta) (start : Nat) (c : W.RowsChange)
    (rest : List W.RowsChange) :
    D.padPacket cfg (c :: rest) (W.event crc m (W.rowsEventType c.kind cfg.rowsV2) start (bodyOf cfg c)).1
      = (W.event crc m (W.rowsEventType c.kind cfg.rowsV2) start (bodyP true cfg c)).1 := by
  have hdrop : List.drop 19 (W.event crc m (W.rowsEventType c.kind cfg.rowsV2) start (bodyOf cfg c)).1
      = bodyOf cfg c ++ crc.getD [] := by
    rw [event_fst, List.drop_left' (GV.C16.header_length ..)]
  have hpred : ((List.take (W.rowsBody c.kind cfg.rowsV2 (if cfg.idw4 then 4 else 6) c.table.id c.flags c.extra c.table.cols
          c.presentBefore c.presentAfter c.rows).length
        (List.drop 19 (W.event crc m (W.rowsEventType c.kind cfg.rowsV2) start (bodyOf cfg c)).1)
          == W.rowsBody c.kind cfg.rowsV2 (if cfg.idw4 then 4 else 6) c.table.id c.flags c.extra c.table.cols
          c.presentBefore c.presentAfter c.rows) &&
      (W.event crc m (W.rowsEventType c.kind cfg.rowsV2) start (bodyOf cfg c)).1.getD 4 0
        == UInt8.ofNat (W.rowsEventType c.kind cfg.rowsV2)) = true := by
    change ((List.take (bodyOf cfg c).length _ == bodyOf cfg c) && _) = true
    rw [hdrop, List.take_left' rfl, event_getD4]
    simp
  unfold D.padPacket
  simp only
  rw [List.find?_cons]
  simp only [hpred]
  change List.take 19 _ ++ bodyP true cfg c ++ List.drop (19 + (bodyOf cfg c).length) _ = _
  rw [event_fst, event_fst, show (bodyP true cfg c).length = (bodyOf cfg c).length from rowsBodyP_length ..,
    List.take_left' (GV.C16.header_length ..), ← List.drop_drop, List.drop_left' (GV.C16.header_length ..),
    List.drop_left' rfl, List.append_assoc]


/-! ### alignment: when the body of one well-formed rows change is a prefix of another's -/

theorem prefix_peel {α} {A A' X Y : List α} (hl : A.length = A'.length) (h : A ++ X <+: A' ++ Y) : A = A' ∧ X <+: Y := by
  obtain ⟨Z, hZ⟩ := h
  rw [List.append_assoc] at hZ
  obtain ⟨h1, h2⟩ := List.append_inj hZ hl
  exact ⟨h1, ⟨Z, h2⟩⟩

theorem bitmapBytes_inj {bits bits' : List Bool} (hl : bits.length = bits'.length)
    (h : W.bitmapBytes bits = W.bitmapBytes bits') : bits = bits' := by
  apply List.ext_getElem hl
  intro j h1 h2
  have a := bit_written bits 0 j bits[j] (List.getElem?_eq_getElem h1)
  have b := bit_written bits' 0 j bits'[j] (List.getElem?_eq_getElem h2)
  rw [h, b] at a
  exact (Res.ok.inj a).symm

/-- two well-formed cells of one column, one a prefix of the other (each followed by anything): the same length -/
theorem cell_len_det (typ md : Nat) (u : Bool) (x x' : W.CellVal) (hx : W.CellOK typ md u x) (hx' : W.CellOK typ md u x')
    (A B : Bytes) (h : W.cell typ md x ++ A <+: W.cell typ md x' ++ B) :
    (W.cell typ md x).length = (W.cell typ md x').length := by
  obtain ⟨C, hC⟩ := h
  let E : Ext := ⟨fun _ => [], fun _ => [], fun _ => [], fun _ => 0⟩
  have h1 := (cell_exact E typ md u x hx [] (A ++ C)).1
  have h2 := (cell_exact E typ md u x' hx' [] B).1
  simp only [List.nil_append, List.length_nil] at h1 h2
  rw [← List.append_assoc, hC, h2] at h1
  exact (Res.ok.inj h1).symm

/-- the cells of two images with the same NULL pattern -/
theorem cells_align : ∀ (sel : List (W.ColDef × Bool)) (v v' : List (Option W.CellVal)) (X Y : Bytes),
    ImgOK sel v → ImgOK sel v' → v.map (·.isNone) = v'.map (·.isNone) →
    cellsOf sel v ++ X <+: cellsOf sel v' ++ Y → cellsOf sel v = cellsOf sel v' ∧ X <+: Y := by
  intro sel
  induction sel with
  | nil => intro v v' X Y _ _ _ h; simpa [cellsOf_nil] using h
  | cons col sel ih =>
    intro v v' X Y hv hv' hn h
    cases v with
    | nil => have := hv.1; simp at this
    | cons a v =>
      cases v' with
      | nil => have := hv'.1; simp at this
      | cons a' v' =>
        obtain ⟨ha, hv1⟩ := imgOK_cons _ _ _ _ hv
        obtain ⟨ha', hv1'⟩ := imgOK_cons _ _ _ _ hv'
        simp only [List.map_cons, List.cons.injEq] at hn
        obtain ⟨hn0, hn1⟩ := hn
        cases a with
        | none =>
          cases a' with
          | some _ => simp at hn0
          | none =>
            rw [cellsOf_none, cellsOf_none] at h ⊢
            exact ih v v' X Y hv1 hv1' hn1 h
        | some x =>
          cases a' with
          | none => simp at hn0
          | some x' =>
            rw [cellsOf_some, cellsOf_some] at h ⊢
            rw [List.append_assoc, List.append_assoc] at h
            have hl := cell_len_det col.1.typ col.1.md col.2 x x' (ha x rfl) (ha' x' rfl) _ _ h
            obtain ⟨e1, h'⟩ := prefix_peel hl h
            obtain ⟨e2, h''⟩ := ih v v' X Y hv1 hv1' hn1 h'
            exact ⟨by rw [e1, e2], h''⟩

/-- two images of the same present columns -/
theorem image_align (sel : List (W.ColDef × Bool)) (v v' : List (Option W.CellVal)) (X Y : Bytes)
    (hv : ImgOK sel v) (hv' : ImgOK sel v')
    (h : W.imageBytes (sel.map (·.1)) v ++ X <+: W.imageBytes (sel.map (·.1)) v' ++ Y) :
    v.map (·.isNone) = v'.map (·.isNone) ∧ cellsOf sel v = cellsOf sel v' ∧ X <+: Y := by
  rw [imageBytes_eq, imageBytes_eq, List.append_assoc, List.append_assoc] at h
  have hl : (W.bitmapBytes (v.map (·.isNone))).length = (W.bitmapBytes (v'.map (·.isNone))).length := by
    rw [C15.bitmapBytes_length, C15.bitmapBytes_length, List.length_map, List.length_map, ← hv.1, ← hv'.1]
  obtain ⟨e1, h'⟩ := prefix_peel hl h
  have hn := bitmapBytes_inj (by rw [List.length_map, List.length_map, ← hv.1, ← hv'.1]) e1
  obtain ⟨e2, h''⟩ := cells_align sel v v' X Y hv hv' hn h'
  exact ⟨hn, e2, h''⟩


theorem rowBytesG_spec (hi hd : Bool) (selB selA : List (W.ColDef × Bool)) (r : RowV) :
    rowBytesG hi hd selB selA (r, W.bitmapBytes (r.1.map (·.isNone)), W.bitmapBytes (r.2.map (·.isNone)))
      = rowBytes hi hd selB selA r := by
  simp [rowBytesG, rowBytes, imageBytes_eq]

theorem padRows_false_flat (hi hd : Bool) (selB selA : List (W.ColDef × Bool)) (rs : List RowV) :
    (padRows false rs).flatMap (rowBytesG hi hd selB selA) = rs.flatMap (rowBytes hi hd selB selA) := by
  unfold padRows
  rw [List.flatMap_map]
  have : (fun r : RowV => rowBytesG hi hd selB selA
      (r, D.bmBytes false (r.1.map (·.isNone)), D.bmBytes false (r.2.map (·.isNone)))) = rowBytes hi hd selB selA := by
    funext r
    rw [bmBytes_false, bmBytes_false]
    exact rowBytesG_spec hi hd selB selA r
  rw [← this]

theorem rowBytesG_length_enc (hi hd : Bool) (selB selA : List (W.ColDef × Bool)) (x : RowG) (h : RowEnc hi hd x) :
    (rowBytesG hi hd selB selA x).length = (rowBytes hi hd selB selA x.1).length := by
  obtain ⟨h1, h2⟩ := h
  cases hi <;> cases hd <;>
    simp [rowBytesG, rowBytes, imageBytes_eq, C15.bitmapBytes_length]
  · rw [(h2 rfl).1]; simp
  · rw [(h1 rfl).1]; simp
  · rw [(h1 rfl).1, (h2 rfl).1]; simp

/-- one row of each: same length, same cells, and the padded NULL bitmaps of the one encode the NULL patterns of the
    other -/
theorem row_align (hi hd : Bool) (selB selA : List (W.ColDef × Bool)) (r r' : RowV) (X Y : Bytes)
    (hok : (hi = true → ImgOK selB r.1) ∧ (hd = true → ImgOK selA r.2))
    (hok' : (hi = true → ImgOK selB r'.1) ∧ (hd = true → ImgOK selA r'.2))
    (h : rowBytes hi hd selB selA r ++ X <+: rowBytes hi hd selB selA r' ++ Y) :
    (∀ nB nA, rowBytesG hi hd selB selA (r, nB, nA) = rowBytesG hi hd selB selA (r', nB, nA)) ∧
    RowEnc hi hd (r', D.bmBytes true (r.1.map (·.isNone)), D.bmBytes true (r.2.map (·.isNone))) ∧
    (rowBytes hi hd selB selA r).length = (rowBytes hi hd selB selA r').length ∧ X <+: Y := by
  cases hi with
  | false =>
    cases hd with
    | false =>
      simp only [rowBytes, Bool.false_eq_true, if_false, List.nil_append] at h
      exact ⟨fun _ _ => by simp [rowBytesG], And.intro (fun h => by cases h) (fun h => by cases h), rfl, h⟩
    | true =>
      simp only [rowBytes, Bool.false_eq_true, if_false, if_true, List.nil_append] at h ⊢
      obtain ⟨hn, hc, hxy⟩ := image_align selA r.2 r'.2 X Y (hok.2 rfl) (hok'.2 rfl) h
      refine ⟨fun _ _ => by simp [rowBytesG, hc], And.intro (fun h => by cases h) (fun _ => ?_), ?_, hxy⟩
      · show BmEnc (r'.2.map (·.isNone)) _
        rw [← hn]; exact bmEnc_bmBytes true _
      · rw [imageBytes_eq, imageBytes_eq, hn, hc]
  | true =>
    cases hd with
    | false =>
      simp only [rowBytes, Bool.false_eq_true, if_false, if_true, List.append_nil] at h ⊢
      obtain ⟨hn, hc, hxy⟩ := image_align selB r.1 r'.1 X Y (hok.1 rfl) (hok'.1 rfl) h
      refine ⟨fun _ _ => by simp [rowBytesG, hc], And.intro (fun _ => ?_) (fun h => by cases h), ?_, hxy⟩
      · show BmEnc (r'.1.map (·.isNone)) _
        rw [← hn]; exact bmEnc_bmBytes true _
      · rw [imageBytes_eq, imageBytes_eq, hn, hc]
    | true =>
      simp only [rowBytes, if_true, List.append_assoc] at h ⊢
      obtain ⟨hn, hc, h'⟩ := image_align selB r.1 r'.1 _ _ (hok.1 rfl) (hok'.1 rfl) h
      obtain ⟨hn2, hc2, hxy⟩ := image_align selA r.2 r'.2 X Y (hok.2 rfl) (hok'.2 rfl) h'
      refine ⟨fun _ _ => by simp [rowBytesG, hc, hc2], And.intro (fun _ => ?_) (fun _ => ?_), ?_, hxy⟩
      · show BmEnc (r'.1.map (·.isNone)) _
        rw [← hn]; exact bmEnc_bmBytes true _
      · show BmEnc (r'.2.map (·.isNone)) _
        rw [← hn2]; exact bmEnc_bmBytes true _
      · simp only [imageBytes_eq, List.length_append, hn, hc, hn2, hc2]


theorem padRows_cons (pad : Bool) (r : RowV) (rs : List RowV) :
    padRows pad (r :: rs) = (r, D.bmBytes pad (r.1.map (·.isNone)), D.bmBytes pad (r.2.map (·.isNone))) :: padRows pad rs := rfl

theorem padRows_flat_length (pad hi hd : Bool) (selB selA : List (W.ColDef × Bool)) (rs : List RowV) :
    ((padRows pad rs).flatMap (rowBytesG hi hd selB selA)).length = (rs.flatMap (rowBytes hi hd selB selA)).length := by
  induction rs with
  | nil => rfl
  | cons r rs ih =>
    rw [padRows_cons, List.flatMap_cons, List.flatMap_cons, List.length_append, List.length_append, ih,
      rowBytesG_length_pad]

/-- the rows of one change against the rows of another (followed by `t`, the checksum bytes): padding the bitmaps of
    the first inside the second yields an encoding of the SECOND (followed by as many bytes as `t` has) -/
theorem rows_align (hi hd : Bool) (selB selA : List (W.ColDef × Bool)) :
    ∀ (rs rs' : List RowV) (t : Bytes),
    (∀ r ∈ rs, (hi = true → ImgOK selB r.1) ∧ (hd = true → ImgOK selA r.2)) →
    (∀ r ∈ rs', (hi = true → ImgOK selB r.1) ∧ (hd = true → ImgOK selA r.2)) →
    rs.flatMap (rowBytes hi hd selB selA) <+: rs'.flatMap (rowBytes hi hd selB selA) ++ t →
    ∃ (rowsE : List RowG) (t' : Bytes), t'.length = t.length ∧
      (padRows true rs).flatMap (rowBytesG hi hd selB selA) ++
          (rs'.flatMap (rowBytes hi hd selB selA) ++ t).drop (rs.flatMap (rowBytes hi hd selB selA)).length
        = rowsE.flatMap (rowBytesG hi hd selB selA) ++ t' ∧
      rowsE.map (·.1) = rs' ∧ ∀ x ∈ rowsE, RowEnc hi hd x := by
  intro rs
  induction rs with
  | nil =>
    intro rs' t _ _ _
    refine ⟨padRows false rs', t, rfl, ?_, ?_, ?_⟩
    · simp [padRows]
      exact (padRows_false_flat hi hd selB selA rs').symm
    · simp [padRows, List.map_map, Function.comp_def]
    · intro x hx
      obtain ⟨r, _, rfl⟩ := List.mem_map.mp hx
      exact And.intro (fun _ => bmEnc_bmBytes false _) (fun _ => bmEnc_bmBytes false _)
  | cons r rs ih =>
    intro rs' t hok hok' h
    cases rs' with
    | nil =>
      -- everything of the first change lies in `t`
      simp only [List.flatMap_nil, List.nil_append] at h ⊢
      refine ⟨[], (padRows true (r :: rs)).flatMap (rowBytesG hi hd selB selA) ++
        t.drop ((r :: rs).flatMap (rowBytes hi hd selB selA)).length, ?_, by simp, rfl, by intro x hx; cases hx⟩
      have hle := h.length_le
      rw [List.length_append, padRows_flat_length, List.length_drop]
      omega
    | cons r' rs' =>
      have hr := hok r List.mem_cons_self
      have hr' := hok' r' List.mem_cons_self
      simp only [List.flatMap_cons, List.append_assoc] at h
      obtain ⟨hcell, henc, hlen, h'⟩ := row_align hi hd selB selA r r' _ _ hr hr' h
      obtain ⟨rowsE, t', ht', heq, hmap, hall⟩ := ih rs' t (fun x hx => hok x (List.mem_cons_of_mem _ hx))
        (fun x hx => hok' x (List.mem_cons_of_mem _ hx)) h'
      refine ⟨(r', D.bmBytes true (r.1.map (·.isNone)), D.bmBytes true (r.2.map (·.isNone))) :: rowsE, t', ht', ?_, ?_, ?_⟩
      · rw [padRows_cons, List.flatMap_cons, List.flatMap_cons, List.flatMap_cons, List.flatMap_cons, List.length_append,
          List.append_assoc, List.append_assoc, List.append_assoc, ← List.drop_drop, hlen, List.drop_left' rfl, heq, hcell]
      · simp [hmap]
      · intro x hx
        rcases List.mem_cons.mp hx with rfl | hx
        · exact henc
        · exact hall x hx


theorem ofLE_inj (w n n' : Nat) (hn : n < 256 ^ w) (hn' : n' < 256 ^ w) (h : ofLE w n = ofLE w n') : n = n' := by
  have := congrArg Bytes.le h
  rwa [le_ofLE, le_ofLE, Nat.mod_eq_of_lt hn, Nat.mod_eq_of_lt hn'] at this

/-- the table id is the first thing in a rows body -/
theorem body_id (k k' : W.RowKind) (v2 : Bool) (idw id id' flags flags' : Nat) (extra extra' : Bytes)
    (cols cols' : List W.ColDef) (pb pb' pa pa' : List Bool) (rows rows' : List RowV) (t : Bytes)
    (hid : id < 256 ^ idw) (hid' : id' < 256 ^ idw)
    (h : W.rowsBody k v2 idw id flags extra cols pb pa rows <+: W.rowsBody k' v2 idw id' flags' extra' cols' pb' pa' rows' ++ t) :
    id = id' := by
  obtain ⟨r, hr⟩ := GV.C01b.rowsBody_split k v2 idw id flags extra cols pb pa rows
  obtain ⟨r', hr'⟩ := GV.C01b.rowsBody_split k' v2 idw id' flags' extra' cols' pb' pa' rows'
  rw [hr, hr', List.append_assoc] at h
  exact ofLE_inj idw id id' hid hid' (prefix_peel (by simp) h).1

theorem drop_len_add {α} (A X : List α) (n : Nat) : (A ++ X).drop (A.length + n) = X.drop n := by
  rw [← List.drop_drop, List.drop_left' rfl]

/-- the byte surgery of `D.padPacket` on nested appends -/
theorem assemble (P BB BA R BBp BAp Rp R' t : Bytes) :
    (P ++ (BBp ++ (BAp ++ Rp))) ++ List.drop (P ++ (BB ++ (BA ++ R))).length ((P ++ (BB ++ (BA ++ R'))) ++ t)
      = P ++ (BBp ++ (BAp ++ (Rp ++ List.drop R.length (R' ++ t)))) := by
  have : (P ++ (BB ++ (BA ++ R'))) ++ t = P ++ (BB ++ (BA ++ (R' ++ t))) := by simp
  rw [this, List.length_append, List.length_append, List.length_append, drop_len_add, drop_len_add, drop_len_add]
  simp

theorem rowBytes_irrelB (hd : Bool) (sB sB' sA : List (W.ColDef × Bool)) :
    rowBytes false hd sB sA = rowBytes false hd sB' sA := by funext r; simp [rowBytes]
theorem rowBytes_irrelA (hi : Bool) (sB sA sA' : List (W.ColDef × Bool)) :
    rowBytes hi false sB sA = rowBytes hi false sB sA' := by funext r; simp [rowBytes]
theorem rowBytesG_irrelB (hd : Bool) (sB sB' sA : List (W.ColDef × Bool)) :
    rowBytesG false hd sB sA = rowBytesG false hd sB' sA := by funext r; simp [rowBytesG]
theorem rowBytesG_irrelA (hi : Bool) (sB sA sA' : List (W.ColDef × Bool)) :
    rowBytesG hi false sB sA = rowBytesG hi false sB sA' := by funext r; simp [rowBytesG]

/-- body level: when the Spec body of one well-formed rows change (same kind, same table) is a prefix of the Spec body
    of another followed by `t`, swapping in the padded body of the first yields an ENCODING of the second (`bodyG`:
    right bits in every bitmap, whatever in the unused ones), followed by as many bytes as `t` has -/
theorem body_align (k : W.RowKind) (v2 : Bool) (idw id flags flags' : Nat) (extra extra' : Bytes)
    (allCols : List (W.ColDef × Bool)) (pb pb' pa pa' : List Bool) (rows rows' : List RowV) (t : Bytes)
    (hfl : flags < 65536) (hfl' : flags' < 65536) (hex : extra.length < 65534) (hex' : extra'.length < 65534)
    (hpb : pb.length = allCols.length) (hpb' : pb'.length = allCols.length)
    (hpa : pa.length = allCols.length) (hpa' : pa'.length = allCols.length)
    (hok : ∀ r ∈ rows, (k ≠ .write → ImgOK (W.selectPresent pb allCols) r.1) ∧ (k ≠ .delete → ImgOK (W.selectPresent pa allCols) r.2))
    (hok' : ∀ r ∈ rows', (k ≠ .write → ImgOK (W.selectPresent pb' allCols) r.1) ∧ (k ≠ .delete → ImgOK (W.selectPresent pa' allCols) r.2))
    (h : W.rowsBody k v2 idw id flags extra (allCols.map (·.1)) pb pa rows
          <+: W.rowsBody k v2 idw id flags' extra' (allCols.map (·.1)) pb' pa' rows' ++ t) :
    ∃ (rowsE : List RowG) (t' : Bytes), t'.length = t.length ∧
      D.rowsBodyP true k v2 idw id flags extra (allCols.map (·.1)) pb pa rows ++
          (W.rowsBody k v2 idw id flags' extra' (allCols.map (·.1)) pb' pa' rows' ++ t).drop
            (W.rowsBody k v2 idw id flags extra (allCols.map (·.1)) pb pa rows).length
        = bodyG (k != .write) (k != .delete) v2 idw id flags' extra' allCols pb' pa' (D.bmBytes true pb') (D.bmBytes true pa')
            rowsE ++ t' ∧
      rowsE.map (·.1) = rows' ∧ ∀ x ∈ rowsE, RowEnc (k != .write) (k != .delete) x := by
  have hkw : ((k != .write) = true) ↔ k ≠ .write := by cases k <;> decide
  have hkd : ((k != .delete) = true) ↔ k ≠ .delete := by cases k <;> decide
  rw [rowsBodyP_eq, rowsBody_eq, rowsBody_eq] at *
  unfold bodyG
  generalize (k != W.RowKind.write) = hi at *
  generalize (k != W.RowKind.delete) = hd at *
  have hokE : ∀ r ∈ rows, (hi = true → ImgOK (W.selectPresent pb allCols) r.1) ∧ (hd = true → ImgOK (W.selectPresent pa allCols) r.2) :=
    fun r hr => ⟨fun h => (hok r hr).1 (hkw.mp h), fun h => (hok r hr).2 (hkd.mp h)⟩
  have hokE' : ∀ r ∈ rows', (hi = true → ImgOK (W.selectPresent pb' allCols) r.1) ∧ (hd = true → ImgOK (W.selectPresent pa' allCols) r.2) :=
    fun r hr => ⟨fun h => (hok' r hr).1 (hkw.mp h), fun h => (hok' r hr).2 (hkd.mp h)⟩
  clear hok hok' hkw hkd
  simp only [List.append_assoc] at h
  -- id
  obtain ⟨_, g1⟩ := prefix_peel rfl h
  -- flags
  obtain ⟨e1, g2⟩ := prefix_peel (by simp) g1
  have efl : flags = flags' := ofLE_inj 2 _ _ (by simpa using hfl) (by simpa using hfl') e1
  clear h g1 e1
  subst efl
  -- extra data
  have hV : (if v2 = true then ofLE 2 (2 + extra.length) ++ extra else []) = (if v2 = true then ofLE 2 (2 + extra'.length) ++ extra' else []) ∧
      (W.lenenc allCols.length ++ ((if hi = true then W.bitmapBytes pb else []) ++ ((if hd = true then W.bitmapBytes pa else []) ++
        rows.flatMap (rowBytes hi hd (W.selectPresent pb allCols) (W.selectPresent pa allCols)))))
      <+: (W.lenenc allCols.length ++ ((if hi = true then W.bitmapBytes pb' else []) ++ ((if hd = true then W.bitmapBytes pa' else []) ++
        (rows'.flatMap (rowBytes hi hd (W.selectPresent pb' allCols) (W.selectPresent pa' allCols)) ++ t)))) := by
    cases v2 with
    | false =>
      simp only [Bool.false_eq_true, if_false, List.nil_append] at g2
      exact ⟨rfl, g2⟩
    | true =>
      simp only [if_true, List.append_assoc] at g2
      obtain ⟨e2, g3⟩ := prefix_peel (by simp) g2
      have e2' : 2 + extra.length = 2 + extra'.length :=
        ofLE_inj 2 _ _ (by simp only [Nat.reducePow]; omega) (by simp only [Nat.reducePow]; omega) e2
      obtain ⟨e3, g4⟩ := prefix_peel (by omega) g3
      exact ⟨by rw [e3], g4⟩
  obtain ⟨eV, g5⟩ := hV
  clear g2
  -- column count
  obtain ⟨_, g6⟩ := prefix_peel rfl g5
  -- the presence bitmaps
  have hB : (hi = true → pb = pb') ∧
      ((if hd = true then W.bitmapBytes pa else []) ++
        rows.flatMap (rowBytes hi hd (W.selectPresent pb allCols) (W.selectPresent pa allCols)))
      <+: ((if hd = true then W.bitmapBytes pa' else []) ++
        (rows'.flatMap (rowBytes hi hd (W.selectPresent pb' allCols) (W.selectPresent pa' allCols)) ++ t)) := by
    cases hi with
    | false => exact ⟨fun h => (by cases h), by simpa using g6⟩
    | true =>
      simp only [if_true] at g6
      obtain ⟨e, g⟩ := prefix_peel (by rw [C15.bitmapBytes_length, C15.bitmapBytes_length, hpb, hpb']) g6
      exact ⟨fun _ => bitmapBytes_inj (by rw [hpb, hpb']) e, g⟩
  obtain ⟨ePB, g7⟩ := hB
  have hA : (hd = true → pa = pa') ∧
      rows.flatMap (rowBytes hi hd (W.selectPresent pb allCols) (W.selectPresent pa allCols))
      <+: (rows'.flatMap (rowBytes hi hd (W.selectPresent pb' allCols) (W.selectPresent pa' allCols)) ++ t) := by
    cases hd with
    | false => exact ⟨fun h => (by cases h), by simpa using g7⟩
    | true =>
      simp only [if_true] at g7
      obtain ⟨e, g⟩ := prefix_peel (by rw [C15.bitmapBytes_length, C15.bitmapBytes_length, hpa, hpa']) g7
      exact ⟨fun _ => bitmapBytes_inj (by rw [hpa, hpa']) e, g⟩
  obtain ⟨ePA, g8⟩ := hA
  clear g5 g6 g7
  -- everything that mentions pb / pa can be said with pb' / pa'
  have sB : ∀ sA, rowBytes hi hd (W.selectPresent pb allCols) sA = rowBytes hi hd (W.selectPresent pb' allCols) sA ∧
      rowBytesG hi hd (W.selectPresent pb allCols) sA = rowBytesG hi hd (W.selectPresent pb' allCols) sA := by
    intro sA
    cases hi with
    | true => rw [ePB rfl]; exact ⟨rfl, rfl⟩
    | false => exact ⟨rowBytes_irrelB .., rowBytesG_irrelB ..⟩
  have sA : ∀ sB, rowBytes hi hd sB (W.selectPresent pa allCols) = rowBytes hi hd sB (W.selectPresent pa' allCols) ∧
      rowBytesG hi hd sB (W.selectPresent pa allCols) = rowBytesG hi hd sB (W.selectPresent pa' allCols) := by
    intro sB
    cases hd with
    | true => rw [ePA rfl]; exact ⟨rfl, rfl⟩
    | false => exact ⟨rowBytes_irrelA .., rowBytesG_irrelA ..⟩
  have bB : (if hi = true then W.bitmapBytes pb else []) = (if hi = true then W.bitmapBytes pb' else []) ∧
      (if hi = true then D.bmBytes true pb else []) = (if hi = true then D.bmBytes true pb' else []) := by
    cases hi with
    | true => rw [ePB rfl]; exact ⟨rfl, rfl⟩
    | false => exact ⟨rfl, rfl⟩
  have bA : (if hd = true then W.bitmapBytes pa else []) = (if hd = true then W.bitmapBytes pa' else []) ∧
      (if hd = true then D.bmBytes true pa else []) = (if hd = true then D.bmBytes true pa' else []) := by
    cases hd with
    | true => rw [ePA rfl]; exact ⟨rfl, rfl⟩
    | false => exact ⟨rfl, rfl⟩
  have hokE2 : ∀ r ∈ rows, (hi = true → ImgOK (W.selectPresent pb' allCols) r.1) ∧ (hd = true → ImgOK (W.selectPresent pa' allCols) r.2) :=
    fun r hr => ⟨fun h => by rw [← ePB h]; exact (hokE r hr).1 h, fun h => by rw [← ePA h]; exact (hokE r hr).2 h⟩
  rw [(sB _).1, (sA _).1] at g8
  obtain ⟨rowsE, t', ht', heq, hmap, hall⟩ := rows_align hi hd (W.selectPresent pb' allCols) (W.selectPresent pa' allCols)
    rows rows' t hokE2 hokE' g8
  refine ⟨rowsE, t', ht', ?_, hmap, hall⟩
  rw [(sB _).1, (sA _).1, (sB _).2, (sA _).2, eV, bB.1, bB.2, bA.1, bA.2]
  have key := assemble
    (ofLE idw id ++ (ofLE 2 flags ++ ((if v2 = true then ofLE 2 (2 + extra'.length) ++ extra' else []) ++ W.lenenc allCols.length)))
    (if hi = true then W.bitmapBytes pb' else []) (if hd = true then W.bitmapBytes pa' else [])
    (rows.flatMap (rowBytes hi hd (W.selectPresent pb' allCols) (W.selectPresent pa' allCols)))
    (if hi = true then D.bmBytes true pb' else []) (if hd = true then D.bmBytes true pa' else [])
    ((padRows true rows).flatMap (rowBytesG hi hd (W.selectPresent pb' allCols) (W.selectPresent pa' allCols)))
    (rows'.flatMap (rowBytes hi hd (W.selectPresent pb' allCols) (W.selectPresent pa' allCols))) t
  simp only [List.append_assoc] at key ⊢
  rw [key, heq]


/-! ### Part B again, for ANY encoding of the bitmaps of the rows event of a table -/

/-- `binlogEvent.Rows` on an event of table `t` whose bitmaps are any encodings of the right bits -/
theorem rows_tableG (f : Format) (hf : f.headerLength = 19) (hdr : Bytes) (hh : hdr.length = 19)
    (k : W.RowKind) (v2 : Bool) (idw id flags : Nat) (hidw : idw = 4 ∨ idw = 6)
    (t : W.TableDef) (hu : t.unsigned.length = t.cols.length) (hne : t.cols ≠ []) (hn : t.cols.length < 2 ^ 31)
    (extra : Bytes) (hex : extra.length < 65534) (pb pa : List Bool) (eB eA : Bytes) (rowsE : List RowG)
    (h4 : hdr[4]? = some (UInt8.ofNat (W.rowsEventType k v2)))
    (hhs : f.headerSize (W.rowsEventType k v2) = .ok (if idw = 4 then 6 else if v2 then 10 else 8))
    (hfl : flags < 65536) (hpb : pb.length = t.cols.length) (hpa : pa.length = t.cols.length)
    (heB : k ≠ .write → BmEnc pb eB) (heA : k ≠ .delete → BmEnc pa eA)
    (hrows : ∀ r ∈ rowsE, (k ≠ .write → ImgOK (W.selectPresent pb (colsU t)) r.1.1) ∧
                          (k ≠ .delete → ImgOK (W.selectPresent pa (colsU t)) r.1.2))
    (henc : ∀ r ∈ rowsE, RowEnc (k != .write) (k != .delete) r)
    (hwide : ∀ r ∈ rowsE, 0 < (rowBytes (k != .write) (k != .delete) (W.selectPresent pb (colsU t))
      (W.selectPresent pa (colsU t)) r.1).length) :
    M.rows f (tmOf t) (hdr ++ bodyG (k != .write) (k != .delete) v2 idw id flags extra (colsU t) pb pa eB eA rowsE)
      = .ok (rowsG (k != .write) (k != .delete) flags (colsU t) pb pa eB eA rowsE) := by
  have hl : (colsU t).length = t.cols.length := by simp [colsU, hu]
  have hfst : (colsU t).map (·.1) = t.cols := GV.C01b.colsU_fst t hu
  have hcne : colsU t ≠ [] := by
    intro h; rw [h] at hl; simp at hl; exact hne (List.eq_nil_of_length_eq_zero hl.symm)
  have hlt : W.rowsEventType k v2 < 256 := by cases k <;> cases v2 <;> decide
  have hT : evType (hdr ++ bodyG (k != .write) (k != .delete) v2 idw id flags extra (colsU t) pb pa eB eA rowsE)
      = .ok (W.rowsEventType k v2) := by
    unfold evType Bytes.get
    rw [List.getElem?_append_left (by omega), h4]
    simp only [Res.ok_bind, Res.pure_eq, UInt8.toNat_ofNat', Nat.mod_eq_of_lt hlt]
  have hS : (hdr ++ bodyG (k != .write) (k != .delete) v2 idw id flags extra (colsU t) pb pa eB eA rowsE).sliceFrom f.headerLength
      = .ok (bodyG (k != .write) (k != .delete) v2 idw id flags extra (colsU t) pb pa eB eA rowsE) := by
    rw [hf]; exact C15.sliceFrom_app hdr _ 19 hh.symm
  have hpos : (if (if idw = 4 then 6 else if v2 then 10 else 8) = 6 then 4 else 6) = idw := by
    rcases hidw with rfl | rfl <;> cases v2 <;> simp
  have hkw : ((k != .write) = true) ↔ k ≠ .write := by cases k <;> decide
  have hkd : ((k != .delete) = true) ↔ k ≠ .delete := by cases k <;> decide
  have key := rows_walkG f _ _ _ _ hT hS hhs (k != .write) (k != .delete) v2
    (by cases k <;> cases v2 <;> decide) (by cases k <;> cases v2 <;> decide) (by cases k <;> cases v2 <;> decide)
    (by cases k <;> decide) idw id flags hpos hfl extra hex (colsU t) hcne (by omega) pb pa (by omega) (by omega) eB eA
    (fun h => heB (hkw.mp h)) (fun h => heA (hkd.mp h)) rowsE
    (fun r hr => ⟨fun h => (hrows r hr).1 (hkw.mp h), fun h => (hrows r hr).2 (hkd.mp h)⟩) henc
    (fun r hr => by rw [rowBytesG_length_enc _ _ _ _ _ (henc r hr)]; exact hwide r hr) rfl
  have e := GV.C01b.rows_congr f (tmOf t)
    { flags := 0, database := [], name := [], types := (colsU t).map (fun c => UInt8.ofNat c.1.typ),
      canBeNull := ⟨[], 0⟩, metadata := (colsU t).map (fun c => c.1.md) }
    (by simp [tmOf, ← hfst]) (by simp [tmOf, ← hfst])
    (hdr ++ bodyG (k != .write) (k != .delete) v2 idw id flags extra (colsU t) pb pa eB eA rowsE)
  rw [e, key]

/-- converting them: exactly the columns of the underlying rows -/
theorem rowsOf_tableG (E : Ext) (t : W.TableDef) (hnm : t.names.length = t.cols.length)
    (hu : t.unsigned.length = t.cols.length) (htyp : ∀ c ∈ t.cols, c.typ < 256)
    (k : W.RowKind) (flags : Nat) (pb pa : List Bool) (hpb : pb.length = t.cols.length) (hpa : pa.length = t.cols.length)
    (eB eA : Bytes) (rowsE : List RowG) (heB : k ≠ .write → BmEnc pb eB) (heA : k ≠ .delete → BmEnc pa eA)
    (hrows : ∀ r ∈ rowsE, (k ≠ .write → ImgOK (W.selectPresent pb (colsU t)) r.1.1) ∧
                          (k ≠ .delete → ImgOK (W.selectPresent pa (colsU t)) r.1.2))
    (henc : ∀ r ∈ rowsE, RowEnc (k != .write) (k != .delete) r) :
    rowsOf E ⟨tmOf t, infoOf t⟩ (rowsG (k != .write) (k != .delete) flags (colsU t) pb pa eB eA rowsE) (GV.C01b.mk k)
        (rowsG (k != .write) (k != .delete) flags (colsU t) pb pa eB eA rowsE).rows
      = .ok (if k = .delete then [] else rowsE.map (fun r => expectCols E (colsU t) pa t.names r.1.2),
             if k = .write then [] else rowsE.map (fun r => expectCols E (colsU t) pb t.names r.1.1)) := by
  have hcl : (infoOf t).columns.length = t.cols.length := by simp [infoOf, hnm, hu]
  have hl : (colsU t).length = t.cols.length := by simp [colsU, hu]
  have hkw := GV.C01b.bne_write k
  have hkd := GV.C01b.bne_delete k
  apply GV.C01b.rowsOf_map E ⟨tmOf t, infoOf t⟩ _ k _
    (fun r => expectCols E (colsU t) pa t.names r.1.2) (fun r => expectCols E (colsU t) pb t.names r.1.1) rowsE
  · intro hk r hr
    have hb := hkd.mpr hk
    simp only [getValuesFromRow, rowsG, hb, if_true, hcl, hl, bne_self_eq_false, Bool.false_eq_true, if_false, mkRowG]
    exact rc_tableG E t hnm hu htyp pa hpa r.1.2 ((hrows r hr).2 hk) _ _ (heA hk) ((henc r hr).2 hb) _ _
  · intro hk r hr
    have hb := hkw.mpr hk
    simp only [getIdentifiesFromRow, rowsG, hb, if_true, hcl, hl, bne_self_eq_false, Bool.false_eq_true, if_false, mkRowG]
    exact rc_tableG E t hnm hu htyp pb hpb r.1.1 ((hrows r hr).1 hk) _ _ (heB hk) ((henc r hr).1 hb) _ _

/-- the encoded body of a rows change: any valid encodings of its bitmaps -/
structure EncOf (cfg : W.Cfg) (c : W.RowsChange) (body : Bytes) : Prop where
  ex : ∃ (eB eA : Bytes) (rowsE : List RowG),
    body = bodyG (c.kind != .write) (c.kind != .delete) cfg.rowsV2 (idw cfg) c.table.id c.flags c.extra (colsU c.table)
      c.presentBefore c.presentAfter eB eA rowsE ∧
    (c.kind ≠ .write → BmEnc c.presentBefore eB) ∧ (c.kind ≠ .delete → BmEnc c.presentAfter eA) ∧
    rowsE.map (·.1) = c.rows ∧ ∀ x ∈ rowsE, RowEnc (c.kind != .write) (c.kind != .delete) x
  len : body.length = (bodyOf cfg c).length

theorem bodyG_split (hi hd v2 : Bool) (idw id flags : Nat) (extra : Bytes) (allCols : List (W.ColDef × Bool))
    (pb pa : List Bool) (eB eA : Bytes) (rows : List RowG) :
    ∃ rest, bodyG hi hd v2 idw id flags extra allCols pb pa eB eA rows = ofLE idw id ++ rest := ⟨_, rfl⟩

/-- (C01_classify_rows for ANY encoding) -/
theorem classify_rows_enc (env : Env) (st : PState) (cfg : W.Cfg) (hr : Ready cfg st) (crc : Option Bytes)
    (hc : crcOK cfg crc) (m : W.EvMeta) (start : Nat) (c : W.RowsChange) (hrows : RowsOK cfg c)
    (hts : m.ts = c.ts) (body : Bytes) (henc : EncOf cfg c body) (hok : EvOK crc m start (bodyOf cfg c))
    (hcache : ∀ tc, findTable st.tables c.table.id = some tc → tc = ⟨tmOf c.table, infoOf c.table⟩) :
    classify env st (W.event crc m (W.rowsEventType c.kind cfg.rowsV2) start body).1
      = match findTable st.tables c.table.id with
        | some _ => .rows (seOfRows env.ext c) (start + (19 + (bodyOf cfg c).length + Props.C16.crcLen crc)) c.ts
        | none => .decodeErr := by
  obtain ⟨⟨eB, eA, rowsE, hbody, heB, heA, hmap, hRE⟩, hlen⟩ := henc
  have hlt := GV.C01b.rowsType_lt c.kind cfg.rowsV2
  have hokP : EvOK crc m start body := by unfold EvOK at hok ⊢; rw [hlen]; exact hok
  obtain ⟨h1, h2, h3, h4, h5, h6⟩ := C01.pre st.format crc m (W.rowsEventType c.kind cfg.rowsV2) start _
    (GV.C01b.crc_pre hr hc) (GV.C01b.meta_pre _ hlt hokP)
  have hf : st.format = fmtOf cfg := hr
  have hhs : st.format.headerSize (W.rowsEventType c.kind cfg.rowsV2)
      = .ok (if idw cfg = 4 then 6 else if cfg.rowsV2 then 10 else 8) := by
    rw [hf]; exact GV.C01b.hs_rows cfg c.kind
  obtain ⟨rest, hb⟩ := bodyG_split (c.kind != .write) (c.kind != .delete) cfg.rowsV2 (idw cfg) c.table.id c.flags c.extra
    (colsU c.table) c.presentBefore c.presentAfter eB eA rowsE
  rw [← hbody] at hb
  have hid := GV.C01b.tableID_body st.format (GV.C01b.hl19 hr) _ (C01.hdrOf_length ..) _ _ (idw cfg) c.table.id
    (idw_cases cfg) _ rest hb h4 hhs (by rcases idw_cases cfg with h | h <;> cases cfg.rowsV2 <;> simp [h]) hrows.table.id
  cases hfind : findTable st.tables c.table.id with
  | none => exact classify_rows_nocache env st _ _ c.kind cfg.rowsV2 h1 h2 (GV.C01b.notZero hr) h3 h4 c.table.id hid hfind
  | some tc =>
    have := hcache tc hfind
    subst this
    have htypc : ∀ x ∈ c.table.cols, x.typ < 256 := fun x hx => GV.C15.colOK_typ x (hrows.table.cols x hx)
    have hcnt : c.table.cols.length < 2 ^ 31 := by
      have := hrows.table.count
      simp only [Nat.reducePow] at this ⊢; omega
    have hh4 : (C01.hdrOf crc m (W.rowsEventType c.kind cfg.rowsV2) start body)[4]?
        = some (UInt8.ofNat (W.rowsEventType c.kind cfg.rowsV2)) := by
      unfold C01.hdrOf W.header
      simp [ofLE_length]
    have hmem : ∀ x ∈ rowsE, x.1 ∈ c.rows := by
      intro x hx; rw [← hmap]; exact List.mem_map.mpr ⟨x, hx, rfl⟩
    have hkw := GV.C01b.bne_write c.kind
    have hkd := GV.C01b.bne_delete c.kind
    have hR := rows_tableG st.format (GV.C01b.hl19 hr) _ (C01.hdrOf_length crc m (W.rowsEventType c.kind cfg.rowsV2) start body)
      c.kind cfg.rowsV2 (idw cfg)
      c.table.id c.flags (idw_cases cfg) c.table hrows.table.unsigned hrows.table.ne hcnt c.extra hrows.extra
      c.presentBefore c.presentAfter eB eA rowsE hh4 hhs hrows.flags hrows.pb hrows.pa heB heA
      (fun x hx => hrows.images x.1 (hmem x hx)) hRE
      (fun x hx => by
        have := hrows.wide x.1 (hmem x hx)
        simpa only [rowBytes, hkw, hkd] using this)
    rw [← hbody] at hR
    have hO := rowsOf_tableG env.ext c.table hrows.table.names hrows.table.unsigned htypc c.kind c.flags
      c.presentBefore c.presentAfter hrows.pb hrows.pa eB eA rowsE heB heA
      (fun x hx => hrows.images x.1 (hmem x hx)) hRE
    have key := GV.C01b.classify_rows_generic env st _ _ c.kind cfg.rowsV2 h1 h2 (GV.C01b.notZero hr) h3 h4 c.table.id
      ⟨tmOf c.table, infoOf c.table⟩ _ _ _ _ _ hid hfind hR h5 h6 hO
    have hmk : ∀ k, GV.C01b.mk k = mKind k := by intro k; cases k <;> rfl
    have hm1 : rowsE.map (fun r => expectCols env.ext (colsU c.table) c.presentAfter c.table.names r.1.2)
        = c.rows.map (fun r => expectCols env.ext (colsU c.table) c.presentAfter c.table.names r.2) := by
      rw [← hmap, List.map_map]; rfl
    have hm2 : rowsE.map (fun r => expectCols env.ext (colsU c.table) c.presentBefore c.table.names r.1.1)
        = c.rows.map (fun r => expectCols env.ext (colsU c.table) c.presentBefore c.table.names r.1) := by
      rw [← hmap, List.map_map]; rfl
    rw [key, hts, hmk, hlen, hm1, hm2]
    rfl

/-- the Spec body is an encoding of its change -/
theorem encOf_spec (cfg : W.Cfg) (c : W.RowsChange) (hu : c.table.unsigned.length = c.table.cols.length) :
    EncOf cfg c (bodyOf cfg c) := by
  refine ⟨⟨D.bmBytes false c.presentBefore, D.bmBytes false c.presentAfter, padRows false c.rows, ?_,
    fun _ => bmEnc_bmBytes false _, fun _ => bmEnc_bmBytes false _, ?_, ?_⟩, rfl⟩
  · have := rowsBodyP_eq false c.kind cfg.rowsV2 (idw cfg) c.table.id c.flags c.extra (colsU c.table) c.presentBefore
      c.presentAfter c.rows
    have hfst : (colsU c.table).map (·.1) = c.table.cols := GV.C01b.colsU_fst c.table hu
    rw [hfst, rowsBodyP_false] at this
    exact this
  · simp [padRows, List.map_map, Function.comp_def]
  · intro x hx
    obtain ⟨r, _, rfl⟩ := List.mem_map.mp hx
    exact And.intro (fun _ => bmEnc_bmBytes false _) (fun _ => bmEnc_bmBytes false _)

/-- conversion level, general: any two encodings of the rows event of `c` — with any checksum bytes — are classified
    alike -/
theorem classify_enc_eq (env : Env) (st : PState) (cfg : W.Cfg) (hr : Ready cfg st) (crc crc' : Option Bytes)
    (hc : crcOK cfg crc) (hc' : crcOK cfg crc') (m : W.EvMeta) (start : Nat) (c : W.RowsChange) (hrows : RowsOK cfg c)
    (hts : m.ts = c.ts) (body body' : Bytes) (henc : EncOf cfg c body) (henc' : EncOf cfg c body')
    (hok : EvOK crc m start (bodyOf cfg c))
    (hcache : ∀ tc, findTable st.tables c.table.id = some tc → tc = ⟨tmOf c.table, infoOf c.table⟩) :
    classify env st (W.event crc' m (W.rowsEventType c.kind cfg.rowsV2) start body').1
      = classify env st (W.event crc m (W.rowsEventType c.kind cfg.rowsV2) start body).1 := by
  have hcl : Props.C16.crcLen crc' = Props.C16.crcLen crc := by
    cases crc <;> cases crc' <;> simp_all [crcOK, Props.C16.crcLen]
  have hok' : EvOK crc' m start (bodyOf cfg c) := by
    unfold EvOK at hok ⊢
    cases crc <;> cases crc' <;> simp_all [crcOK, Props.C16.crcLen]
  rw [classify_rows_enc env st cfg hr crc hc m start c hrows hts body henc hok hcache,
    classify_rows_enc env st cfg hr crc' hc' m start c hrows hts body' henc' hok' hcache, hcl]


/-- what `D.padPacket` does to the packet of a well-formed rows change `c'` when every rows change it searches is
    well-formed and a table id names one table: the result is again an event of `c'` — same header, a body that is an
    ENCODING of `c'` (possibly padded in part only: when the match is a change whose rows are a prefix of those of
    `c'`), and as many checksum bytes (possibly others: when the match reaches into them) -/
theorem padPacket_enc (cfg : W.Cfg) (rcs : List W.RowsChange) (hrcs : ∀ c ∈ rcs, RowsOK cfg c) (c' : W.RowsChange)
    (hc' : RowsOK cfg c') (htab : ∀ c ∈ rcs, c.table.id = c'.table.id → c.table = c'.table)
    (crc : Option Bytes) (m : W.EvMeta) (start : Nat) :
    ∃ (body' : Bytes) (crc' : Option Bytes), EncOf cfg c' body' ∧
      (∀ x, crc = some x → ∃ x', crc' = some x' ∧ x'.length = x.length) ∧ (crc = none → crc' = none) ∧
      D.padPacket cfg rcs (W.event crc m (W.rowsEventType c'.kind cfg.rowsV2) start (bodyOf cfg c')).1
        = (W.event crc' m (W.rowsEventType c'.kind cfg.rowsV2) start body').1 := by
  have hu' := hc'.table.unsigned
  have hfst' : (colsU c'.table).map (·.1) = c'.table.cols := GV.C01b.colsU_fst c'.table hu'
  have hlU : (colsU c'.table).length = c'.table.cols.length := by simp [colsU, hu']
  unfold D.padPacket
  simp only
  split
  · rename_i c hfind
    have hmem : c ∈ rcs := List.mem_of_find?_eq_some hfind
    have hc := hrcs c hmem
    have hp := List.find?_some hfind
    simp only [Bool.and_eq_true, beq_iff_eq] at hp
    obtain ⟨hp1, hp2⟩ := hp
    change (List.take (bodyOf cfg c).length (List.drop 19 _)) = bodyOf cfg c at hp1
    rw [event_getD4] at hp2
    have hk : c.kind = c'.kind := by
      have h1 := congrArg UInt8.toNat hp2
      simp only [UInt8.toNat_ofNat', Nat.mod_eq_of_lt (GV.C01b.rowsType_lt _ _)] at h1
      exact (rowsEventType_inj _ _ _ h1).symm
    have hdrop : List.drop 19 (W.event crc m (W.rowsEventType c'.kind cfg.rowsV2) start (bodyOf cfg c')).1
        = bodyOf cfg c' ++ crc.getD [] := by
      rw [event_fst, List.drop_left' (GV.C16.header_length ..)]
    rw [hdrop] at hp1
    have hpre : bodyOf cfg c <+: bodyOf cfg c' ++ crc.getD [] := by
      rw [← hp1]; exact List.take_prefix _ _
    have hid : c.table.id = c'.table.id := body_id _ _ _ _ _ _ _ _ _ _ _ _ _ _ _ _ _ _ _ hc.table.id hc'.table.id hpre
    have htbl : c.table = c'.table := htab c hmem hid
    -- the alignment
    have hpre' : W.rowsBody c'.kind cfg.rowsV2 (idw cfg) c'.table.id c.flags c.extra ((colsU c'.table).map (·.1))
          c.presentBefore c.presentAfter c.rows
        <+: W.rowsBody c'.kind cfg.rowsV2 (idw cfg) c'.table.id c'.flags c'.extra ((colsU c'.table).map (·.1))
          c'.presentBefore c'.presentAfter c'.rows ++ crc.getD [] := by
      rw [hfst']
      have := hpre
      unfold bodyOf at this
      rw [hk, htbl] at this
      exact this
    obtain ⟨rowsE, t', ht', heq, hmap, hall⟩ := body_align c'.kind cfg.rowsV2 (idw cfg) c'.table.id c.flags c'.flags c.extra
      c'.extra (colsU c'.table) c.presentBefore c'.presentBefore c.presentAfter c'.presentAfter c.rows c'.rows (crc.getD [])
      hc.flags hc'.flags hc.extra hc'.extra (by rw [hlU, ← htbl]; exact hc.pb) (by rw [hlU]; exact hc'.pb)
      (by rw [hlU, ← htbl]; exact hc.pa) (by rw [hlU]; exact hc'.pa)
      (by have := hc.images; rw [hk, htbl] at this; exact this) hc'.images hpre'
    rw [hfst'] at heq
    have hbP : bodyP true cfg c = D.rowsBodyP true c'.kind cfg.rowsV2 (idw cfg) c'.table.id c.flags c.extra c'.table.cols
        c.presentBefore c.presentAfter c.rows := by unfold bodyP; rw [hk, htbl]
    have hbO : bodyOf cfg c = W.rowsBody c'.kind cfg.rowsV2 (idw cfg) c'.table.id c.flags c.extra c'.table.cols
        c.presentBefore c.presentAfter c.rows := by unfold bodyOf; rw [hk, htbl]
    have hbO' : W.rowsBody c'.kind cfg.rowsV2 (idw cfg) c'.table.id c'.flags c'.extra c'.table.cols
        c'.presentBefore c'.presentAfter c'.rows = bodyOf cfg c' := rfl
    rw [← hbP, ← hbO, hbO'] at heq
    obtain ⟨BG, hBG⟩ : ∃ BG, BG = bodyG (c'.kind != .write) (c'.kind != .delete) cfg.rowsV2 (idw cfg) c'.table.id c'.flags
        c'.extra (colsU c'.table) c'.presentBefore c'.presentAfter (D.bmBytes true c'.presentBefore)
        (D.bmBytes true c'.presentAfter) rowsE := ⟨_, rfl⟩
    rw [← hBG] at heq
    -- lengths
    have hlenP : (bodyP true cfg c).length = (bodyOf cfg c).length := rowsBodyP_length ..
    have hle := hpre.length_le
    have hlen : BG.length = (bodyOf cfg c').length := by
      have := congrArg List.length heq
      simp only [List.length_append, List.length_drop] at this hle
      omega
    have hcl : Props.C16.crcLen (crc.map fun _ => t') = Props.C16.crcLen crc := by
      cases crc with
      | none => rfl
      | some x => simpa [Props.C16.crcLen] using ht'
    have hgd : (crc.map fun _ => t').getD [] = t' := by
      cases crc with
      | none => simp at ht'; simp [ht']
      | some x => rfl
    have hres : List.take 19 (W.event crc m (W.rowsEventType c'.kind cfg.rowsV2) start (bodyOf cfg c')).1 ++ bodyP true cfg c ++
          List.drop (19 + (bodyOf cfg c).length) (W.event crc m (W.rowsEventType c'.kind cfg.rowsV2) start (bodyOf cfg c')).1
        = (W.event (crc.map fun _ => t') m (W.rowsEventType c'.kind cfg.rowsV2) start BG).1 := by
      rw [event_fst, event_fst, hlen, List.take_left' (GV.C16.header_length ..), ← List.drop_drop,
        List.drop_left' (GV.C16.header_length ..), List.append_assoc, heq, hcl, hgd]
    refine ⟨BG, (crc.map fun _ => t'),
      ⟨⟨_, _, rowsE, hBG, fun _ => bmEnc_bmBytes true _, fun _ => bmEnc_bmBytes true _, hmap, hall⟩, hlen⟩, ?_, ?_, hres⟩
    · intro x hx; subst hx; exact ⟨t', rfl, by simpa using ht'⟩
    · intro hx; subst hx; rfl
  · exact ⟨bodyOf cfg c', crc, encOf_spec cfg c' hu', fun x hx => ⟨x, hx, rfl⟩, fun h => h, rfl⟩

/-- second way: every rows change `D.padPacket` searches is well-formed and a table id names one table among them and
    the served ones -/
theorem rowsPad_of_wf (env : Env) (cfg : W.Cfg) (rcs sv : List W.RowsChange) (hrcs : ∀ c ∈ rcs, RowsOK cfg c)
    (htab : ∀ c ∈ rcs, ∀ c' ∈ sv, c.table.id = c'.table.id → c.table = c'.table)
    (htb : ∀ c1 ∈ sv, ∀ c2 ∈ sv, c1.table.id = c2.table.id → c1.table = c2.table) : RowsPad env cfg rcs sv := by
  intro st hI c hc hrows off hb
  have hok := evOK_at cfg off c.ts (bodyOf cfg c) hrows.ts hb
  obtain ⟨body', crc', henc, hs, hn, heq⟩ := padPacket_enc cfg rcs hrcs c hrows (fun c0 h0 => htab c0 h0 c hc)
    (W.crcOf cfg off) { ts := c.ts } off
  have hc' : crcOK cfg crc' := by
    have h0 := crcOf_ok cfg off
    cases hcrc : W.crcOf cfg off with
    | none =>
      rw [hn hcrc]
      rw [hcrc] at h0
      exact h0
    | some x =>
      obtain ⟨x', hx', hl⟩ := hs x hcrc
      rw [hcrc] at h0
      rw [hx']
      exact ⟨h0.1, by rw [hl]; exact h0.2⟩
  rw [bytesAt, heq]
  unfold stepEvent
  rw [classify_enc_eq env st cfg hI.fmt (W.crcOf cfg off) crc' (crcOf_ok cfg off) hc' { ts := c.ts } off c hrows rfl
    (bodyOf cfg c) body' (encOf_spec cfg c hrows.table.unsigned) henc hok]
  intro tc htc
  obtain ⟨c0, hc0, hid0, rfl⟩ := hI.cache _ _ htc
  rw [htb c0 hc0 c hc hid0]


theorem changeRows_mem (cs : List W.Change) (c : W.RowsChange) (h : c ∈ changeRows cs) : W.Change.rows c ∈ cs := by
  induction cs with
  | nil => simp [changeRows] at h
  | cons x cs ih =>
    cases x with
    | rows c0 =>
      simp only [changeRows, List.mem_cons] at h
      rcases h with rfl | h
      · exact List.mem_cons_self
      · exact List.mem_cons_of_mem _ (ih h)
    | stmt s =>
      simp only [changeRows] at h
      exact List.mem_cons_of_mem _ (ih h)

/-- the rows changes of well-formed units are well-formed -/
theorem histRows_ok (cfg : W.Cfg) (us : List W.Unit) (hu : ∀ u ∈ us, UnitOK cfg u) : ∀ c ∈ histRows us, RowsOK cfg c := by
  intro c hc
  obtain ⟨u, hmem, hcu⟩ := List.mem_flatMap.mp hc
  have h := hu u hmem
  cases u with
  | tx b cs close ts =>
    have := h.2.1 (.rows c) (changeRows_mem cs c hcu)
    exact this.1
  | autoRows c0 =>
    simp only [unitRows, List.mem_cons, List.not_mem_nil, or_false] at hcu
    subst hcu
    exact h.1
  | _ => simp [unitRows] at hcu

theorem histRows_unitsFrom_subset (cfg : W.Cfg) (h : W.History) (p : W.Pos) :
    ∀ c ∈ histRows (unitsFrom cfg h p), c ∈ histRows h := by
  intro c hc
  obtain ⟨u, hmem, hcu⟩ := List.mem_flatMap.mp hc
  exact List.mem_flatMap.mpr ⟨u, unitsFrom_subset cfg h p u hmem, hcu⟩

/-- the side condition of the stream theorem, from well-formedness of the rows changes of the WHOLE history -/
theorem rowsPad_of_whole (env : Env) (cfg : W.Cfg) (h : W.History) (p : W.Pos)
    (hall : ∀ c ∈ histRows h, RowsOK cfg c)
    (htab : ∀ c1 ∈ histRows h, ∀ c2 ∈ histRows h, c1.table.id = c2.table.id → c1.table = c2.table) :
    RowsPad env cfg (h.flatMap D.rowsOfUnit) (histRows (unitsFrom cfg h p)) := by
  rw [rcs_eq]
  have hs := histRows_unitsFrom_subset cfg h p
  exact rowsPad_of_wf env cfg _ _ hall (fun c hc c' hc' => htab c hc c' (hs c' hc'))
    (fun c1 h1 c2 h2 => htab c1 (hs c1 h1) c2 (hs c2 h2))


end C09c
end GV
