import GV.Lemmas.C15b
/-
  Definitions and helper lemmas for GV/Props/C15c.lean: a table id RE-USED FOR ANOTHER TABLE (finding F13).

  Table ids are handed out by the master's table cache and start over when the master restarts; a replica that reads
  through binlog files written before and after the restart sees an id it has cached for one table announced for
  another.  streamer.go as found treated every cached id as known — `tablesMaps[tableID].tableMap = tm; continue` — so
  the rows of the new table were delivered under the old table's name and column names.  The repaired code (and the
  model, GV/Model/Streamer.lean) keeps the cached mapper answer only if the cached table map's database and name are
  those of the new one; otherwise the mapper is asked as for a new id and the new entry REPLACES the stale one.

  Sections: the TABLE_MAP packet for a cached id, by what the mapper says; the state after the step; the OLD control
  flow as a variant of `classify` (`classifyOld`, for the regression example); the well-formedness of histories with
  id re-use; the concrete two-file history of the regression example.
-/
namespace GV
namespace C15c
open Bytes M GV.Props.C01 GV.Props.C01b GV.C01c GV.C15b

/-! ### the TABLE_MAP packet for an id cached under another (database, name) -/

/-- the mapper knows the announced table, its column count agreeing with the table map: classified like the first
    announcement of an id — decoded table map, the mapper's answer, `known = false` -/
theorem classify_tablemap_reused_info (env : Env) (st : PState) (cfg : W.Cfg) (hr : Ready cfg st) (crc : Option Bytes)
    (hc : crcOK cfg crc) (m : W.EvMeta) (start : Nat) (t : W.TableDef) (ht : TableOK cfg t) (optional : Bytes)
    (hok : EvOK crc m start (W.tableMapBody (idw cfg) t.id 1 t.db t.name t.cols optional))
    (old : TableCache) (hold : findTable st.tables t.id = some old)
    (hdiff : ¬ (old.tableMap.database = t.db ∧ old.tableMap.name = t.name))
    (info : TableInfo) (hm : env.mapper t.db t.name = some info) (hcount : info.columns.length = t.cols.length) :
    classify env st (W.event crc m 19 start (W.tableMapBody (idw cfg) t.id 1 t.db t.name t.cols optional)).1
      = .tableMap t.id ⟨tmOf t, info⟩ false := by
  obtain ⟨h1, h2, h3, h4, _, _⟩ := C01.pre st.format crc m 19 start _ (GV.C01b.crc_pre hr hc)
    (GV.C01b.meta_pre 19 (by decide) hok)
  obtain ⟨hid, htm⟩ := tm_decoders st cfg hr crc m start t ht optional h4
  simp only [classify, h1, h2, h3, h4, hid, htm, hold, ofRes, GV.C01b.notZero hr, Facts.eFormatDescriptionEvent,
    Facts.eXIDEvent, Facts.eRotateEvent, Facts.eQueryEvent, Facts.eTableMapEvent]
  simp [hm, hcount, tmOf, hdiff]

/-- the mapper fails for the announced table or answers with another column count: a decoding error, as for the first
    announcement of an id (`GV.C15b.classify_tablemap_rejected`) -/
theorem classify_tablemap_reused_rejected (env : Env) (st : PState) (cfg : W.Cfg) (hr : Ready cfg st)
    (crc : Option Bytes)
    (hc : crcOK cfg crc) (m : W.EvMeta) (start : Nat) (t : W.TableDef) (ht : TableOK cfg t) (optional : Bytes)
    (hok : EvOK crc m start (W.tableMapBody (idw cfg) t.id 1 t.db t.name t.cols optional))
    (old : TableCache) (hold : findTable st.tables t.id = some old)
    (hdiff : ¬ (old.tableMap.database = t.db ∧ old.tableMap.name = t.name)) (hbad : MapperRejects env t) :
    classify env st (W.event crc m 19 start (W.tableMapBody (idw cfg) t.id 1 t.db t.name t.cols optional)).1
      = .decodeErr := by
  obtain ⟨h1, h2, h3, h4, _, _⟩ := C01.pre st.format crc m 19 start _ (GV.C01b.crc_pre hr hc)
    (GV.C01b.meta_pre 19 (by decide) hok)
  obtain ⟨hid, htm⟩ := tm_decoders st cfg hr crc m start t ht optional h4
  simp only [classify, h1, h2, h3, h4, hid, htm, hold, ofRes, GV.C01b.notZero hr, Facts.eFormatDescriptionEvent,
    Facts.eXIDEvent, Facts.eRotateEvent, Facts.eQueryEvent, Facts.eTableMapEvent]
  have hdb : (tmOf t).database = t.db := rfl
  have hnm : (tmOf t).name = t.name := rfl
  have hcn : (tmOf t).canBeNull.count = t.cols.length := rfl
  cases hmm : env.mapper t.db t.name with
  | none => simp [hdb, hnm, hmm, hdiff]
  | some info => simp [hdb, hnm, hmm, hcn, hbad info hmm, hdiff]

/-- `tablesMaps[tableID] = tc` for an id that is cached: the entry is replaced -/
theorem stepD_tableMap_replace (st : PState) (id : Nat) (tc old : TableCache) (known : Bool)
    (hold : findTable st.tables id = some old) :
    stepD st (.tableMap id tc known)
      = .cont { st with tables := st.tables.map fun p => if p.1 == id then (p.1, tc) else p } := by
  cases known <;> simp [stepD, hold]

/-- … and for an id that is not: an entry is added -/
theorem stepD_tableMap_add (st : PState) (id : Nat) (tc : TableCache) (hnew : findTable st.tables id = none) :
    stepD st (.tableMap id tc false) = .cont { st with tables := st.tables ++ [(id, tc)] } := by
  simp [stepD, hnew]

/-! ### the OLD control flow (streamer.go as found), for the regression example -/

/-- `classify` with the TABLE_MAP branch of streamer.go AS FOUND: `if _, ok = tablesMaps[tableID]; ok { … ; continue }`
    — every cached id is known, whatever table the event announces: the cached mapper answer is kept and the mapper is
    not asked.  Everything else as `classify`. -/
def classifyOld (env : Env) (st : PState) (ev0 : Bytes) : Decoded :=
  if !isValid ev0 ∨ st.format.isZero ∨ evType ev0 = .ok Facts.eFormatDescriptionEvent then classify env st ev0 else
  match stripChecksum56 st.format ev0 with
  | .ok ev =>
    if evType ev = .ok Facts.eTableMapEvent then
      match tableID st.format ev, tableMap st.format ev with
      | .ok id, .ok tm =>
        match findTable st.tables id with
        | some tc => .tableMap id { tc with tableMap := tm } true
        | none => classify env st ev0
      | _, _ => classify env st ev0
    else classify env st ev0
  | _ => classify env st ev0

def stepEventOld (env : Env) (st : PState) (ev : Bytes) : Step := stepD st (classifyOld env st ev)

/-- `parseEvents` over the old classification -/
def parseEventsOld (env : Env) (handler : Transaction → Bool) : PState → List Input → Outcome
  | st, [] => ⟨[], [], st.pos, false, false⟩
  | st, .closed :: _ => ⟨[], [], st.pos, false, false⟩
  | st, .cancelled :: _ => ⟨[], [], st.pos, false, false⟩
  | st, .event b :: rest =>
    match stepEventOld env st b with
    | .cont st' => parseEventsOld env handler st' rest
    | .stop e c => ⟨[], [], st.pos, e, c⟩
    | .deliver tx acc =>
      if handler tx then
        let o := parseEventsOld env handler acc rest
        { o with calls := tx :: o.calls, accepted := tx :: o.accepted }
      else ⟨[tx], [], st.pos, true, false⟩

/-! ### well-formed histories with table ids re-used for other tables -/

/-- `WFHist` without `tables` (a table id names ONE table throughout the history) and with `announced` (the id was
    announced at some point before) strengthened to "the table was the one LAST announced for the id":
      * nothing at all is asked of the definitions that share a table id — the id may be re-used for another table
        (another database / name: the mapper is asked again) or re-defined for the same table (other column types: the
        cached mapper answer is kept; it is right because the mapper is a function of (database, name) and
        `MapperAgrees` says it knows every definition);
      * `announced`: every rows change whose definition is not the one most recently announced for its id is preceded
        by its own TABLE_MAP event (`curOK`, GV/Lemmas/C15b.lean). -/
structure WFHistReuse (cfg : W.Cfg) (h : W.History) : Prop where
  units : ∀ u ∈ h, UnitOK cfg u
  /-- every rows change carries the definition most recently announced for its id (its own announcement included) -/
  announced : curOK [] (histRows h)
  /-- every event ends below 4 GiB in its file -/
  offsets : ∀ e ∈ W.layout cfg h, e.next < 2 ^ 32

theorem wfReuse_of_redef {cfg : W.Cfg} {h : W.History} (hwf : WFHistRedef cfg h) : WFHistReuse cfg h :=
  ⟨hwf.units, hwf.current, hwf.offsets⟩

theorem wfReuse_of_wf {cfg : W.Cfg} {h : W.History} (hwf : WFHist cfg h) : WFHistReuse cfg h :=
  wfReuse_of_redef (wfRedef_of_wf hwf)

/-- what the informal statement asks for — "rows changes with the same table id and the same (db, name) have the same
    table" and "every rows change whose table differs from the table last announced for its id is announced" — is
    more than `WFHistReuse`: the first clause is not needed -/
theorem wfReuse_of_clauses {cfg : W.Cfg} {h : W.History} (hunits : ∀ u ∈ h, UnitOK cfg u)
    (_htables : ∀ c1 ∈ histRows h, ∀ c2 ∈ histRows h, c1.table.id = c2.table.id → c1.table.db = c2.table.db →
      c1.table.name = c2.table.name → c1.table = c2.table)
    (hann : curOK [] (histRows h)) (hoff : ∀ e ∈ W.layout cfg h, e.next < 2 ^ 32) : WFHistReuse cfg h :=
  ⟨hunits, hann, hoff⟩

theorem fidelity_reuse (cfg : W.Cfg) (env : Env) (h : W.History) (hwf : WFHistReuse cfg h) (hm : MapperAgrees env h) :
    parseEvents env (fun _ => true) (PState.init ⟨W.firstFile, 4⟩)
        ((W.serve cfg h ⟨W.firstFile, 4⟩).map Input.event ++ [Input.closed])
      = ⟨(W.expected cfg h ⟨W.firstFile, 4⟩).map (toTx env.ext), (W.expected cfg h ⟨W.firstFile, 4⟩).map (toTx env.ext),
         posOf (W.endPos cfg h ⟨W.firstFile, 4⟩), false, false⟩ :=
  fidelity_cur cfg env h hwf.units hwf.announced hwf.offsets hm

/-! ### the regression example: table id 108 before and after a master restart -/

/-- shop.orders (order_id BIGINT, amount INT), table id 108 — file 1 -/
def tOrders : W.TableDef :=
  { id := 108, db := asc "shop", name := asc "orders", cols := [⟨8, 0, false⟩, ⟨3, 0, true⟩],
    names := [asc "order_id", asc "amount"], unsigned := [false, false] }
/-- shop.users (uid INT, age TINYINT), table id 108 AGAIN — file 2, after the restart -/
def tUsers : W.TableDef :=
  { id := 108, db := asc "shop", name := asc "users", cols := [⟨3, 0, false⟩, ⟨1, 0, true⟩],
    names := [asc "uid", asc "age"], unsigned := [false, false] }

/-- INSERT INTO shop.orders VALUES (7001, 250) -/
def cOrders : W.RowsChange :=
  { kind := .write, table := tOrders, ts := 100, flags := 1, extra := [], presentBefore := [true, true],
    presentAfter := [true, true], rows := [([], [some (.int 8 7001), some (.int 4 250)])],
    announce := true, tmOptional := [] }
/-- INSERT INTO shop.users VALUES (42, 33) -/
def cUsers : W.RowsChange :=
  { kind := .write, table := tUsers, ts := 200, flags := 1, extra := [], presentBefore := [true, true],
    presentAfter := [true, true], rows := [([], [some (.int 4 42), some (.int 1 33)])],
    announce := true, tmOptional := [] }

/-- transaction 1 in the first file; the master restarts (the file ends with a STOP event, the dump thread announces
    the next file); transaction 2 in the second file -/
def exReuse : W.History :=
  [.tx (asc "BEGIN") [.rows cOrders] (.xid 21) 100,
   .restart (asc "bin.000002"),
   .tx (asc "BEGIN") [.rows cUsers] (.xid 5) 200]

def exExt : Ext := ⟨fun _ => [], fun _ => [], fun _ => [], fun _ => 0⟩
/-- the mapper knows shop.orders and shop.users -/
def exEnvShop : Env :=
  ⟨exExt, fun db n => if db = asc "shop" ∧ n = asc "orders" then some (infoOf tOrders)
                      else if db = asc "shop" ∧ n = asc "users" then some (infoOf tUsers) else none⟩
/-- … only shop.orders -/
def exEnvNoUsers : Env :=
  ⟨exExt, fun db n => if db = asc "shop" ∧ n = asc "orders" then some (infoOf tOrders) else none⟩
/-- … only shop.users -/
def exEnvNoOrders : Env :=
  ⟨exExt, fun db n => if db = asc "shop" ∧ n = asc "users" then some (infoOf tUsers) else none⟩

/-- what the application sees of a delivered transaction, values apart: its two positions and, per event, the table
    the event is attributed to and per row the (column name, binlog type) pairs -/
structure Attributed where
  now : Position
  next : Position
  tables : List (Bytes × Bytes)
  columns : List (List (List (Bytes × Nat)))
  deriving Repr, DecidableEq, BEq

def attributed (txs : List Transaction) : List Attributed :=
  txs.map fun t =>
    ⟨t.now, t.next, t.events.map (·.table), t.events.map fun e => e.rowValues.map fun r => r.map fun c => (c.field, c.typ)⟩

/-- … and the values (their canonical texts), per transaction / event / row -/
def valuesOf (txs : List Transaction) : List (List (List (List Col))) :=
  txs.map fun t => t.events.map fun e => e.rowValues.map fun r => r.map (·.col)

/-- the run of the model (the repaired control flow) on everything the master serves for `exReuse` -/
abbrev runReuse (env : Env) : Outcome :=
  parseEvents env (fun _ => true) (PState.init ⟨W.firstFile, 4⟩)
    ((W.serve {} exReuse ⟨W.firstFile, 4⟩).map Input.event ++ [Input.closed])
/-- … and of the old control flow -/
abbrev runReuseOld (env : Env) : Outcome :=
  parseEventsOld env (fun _ => true) (PState.init ⟨W.firstFile, 4⟩)
    ((W.serve {} exReuse ⟨W.firstFile, 4⟩).map Input.event ++ [Input.closed])

end C15c
end GV
