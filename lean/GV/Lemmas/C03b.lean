import GV.Lemmas.C02b
/-
  Helper lemmas for GV/Props/C03b.lean (C03 at the byte level: labels, chain law, resuming at a label).
  Spec-side list reasoning about `W.expectedAux` / `W.endPosAux`, and one parser-side fact (`calls_same_file`: the two
  labels of a call name the same file).  Vocabulary: `GV.C02b.isCommit`; `NoCommit`, `NoRotate` below.
-/
namespace GV
namespace C03b
open Bytes M GV.Props.C01 GV.Props.C01b GV.C01c GV.C01d GV.C04b GV.C02b

/-- no commit point among these events -/
def NoCommit (mid : List W.Laid) : Prop := ∀ y ∈ mid, isCommit y = false

/-- no event among these makes the Spec move on to another file -/
def NoRotate (mid : List W.Laid) : Prop := ∀ y ∈ mid, ∀ f, y.tag ≠ .rotateTo f

theorem isCommit_iff (x : W.Laid) : isCommit x = true ↔ ∃ cs, x.tag = .commit cs := by
  unfold isCommit
  cases x.tag <;> simp

/-- the k-th expected transaction: the event that commits it, and what its four fields are -/
theorem expectedAux_get : ∀ (l : List W.Laid) (cur : W.Pos) (k : Nat) (t : W.ETx), (W.expectedAux l cur)[k]? = some t →
    ∃ pre e rest cs, l = pre ++ e :: rest ∧ e.tag = .commit cs ∧ (W.expectedAux pre cur).length = k ∧
      t = ⟨W.endPosAux pre cur, ⟨e.file, e.next⟩, e.ts, cs⟩
  | [], _, _, _, h => by simp [W.expectedAux] at h
  | e :: es, cur, k, t, h => by
    have other : ∀ cur', W.expectedAux (e :: es) cur = W.expectedAux es cur' →
        (∀ c, W.expectedAux (e :: c) cur = W.expectedAux c cur') → (∀ c, W.endPosAux (e :: c) cur = W.endPosAux c cur') →
        ∃ pre e' rest cs, e :: es = pre ++ e' :: rest ∧ e'.tag = .commit cs ∧ (W.expectedAux pre cur).length = k ∧
          t = ⟨W.endPosAux pre cur, ⟨e'.file, e'.next⟩, e'.ts, cs⟩ := by
      intro cur' heq hx hy
      rw [heq] at h
      obtain ⟨pre, e', rest, cs, h1, h2, h3, h4⟩ := expectedAux_get es cur' k t h
      exact ⟨e :: pre, e', rest, cs, by rw [h1]; rfl, h2, by rw [hx, h3], by rw [hy, h4]⟩
    cases ht : e.tag with
    | commit cs =>
      have heq : ∀ c, W.expectedAux (e :: c) cur
          = ⟨cur, ⟨e.file, e.next⟩, e.ts, cs⟩ :: W.expectedAux c ⟨e.file, e.next⟩ := by
        intro c; simp [W.expectedAux, ht]
      have hend : ∀ c, W.endPosAux (e :: c) cur = W.endPosAux c ⟨e.file, e.next⟩ := by
        intro c; simp [W.endPosAux, ht]
      rw [heq] at h
      cases k with
      | zero =>
        simp only [List.getElem?_cons_zero, Option.some.injEq] at h
        exact ⟨[], e, es, cs, rfl, ht, rfl, by rw [← h]; rfl⟩
      | succ k =>
        simp only [List.getElem?_cons_succ] at h
        obtain ⟨pre, e', rest, cs', h1, h2, h3, h4⟩ := expectedAux_get es _ k t h
        exact ⟨e :: pre, e', rest, cs', by rw [h1]; rfl, h2, by rw [heq]; simp [h3], by rw [hend, h4]⟩
    | rotateTo f =>
      exact other ⟨f, 4⟩ (by simp [W.expectedAux, ht]) (by intro c; simp [W.expectedAux, ht])
        (by intro c; simp [W.endPosAux, ht])
    | none =>
      exact other cur (by simp [W.expectedAux, ht]) (by intro c; simp [W.expectedAux, ht])
        (by intro c; simp [W.endPosAux, ht])
    | stopThenRotateTo f =>
      exact other cur (by simp [W.expectedAux, ht]) (by intro c; simp [W.expectedAux, ht])
        (by intro c; simp [W.endPosAux, ht])
    | fileHead =>
      exact other cur (by simp [W.expectedAux, ht]) (by intro c; simp [W.expectedAux, ht])
        (by intro c; simp [W.endPosAux, ht])

theorem noCommit_of_length (mid : List W.Laid) (cur : W.Pos) (h : (W.expectedAux mid cur).length = 0) :
    NoCommit mid := by
  rw [expectedAux_length] at h
  intro y hy
  cases hc : isCommit y with
  | false => rfl
  | true =>
    have : 0 < mid.countP isCommit := List.countP_pos_iff.mpr ⟨y, hy, hc⟩
    omega

/-- over events without a commit point the Spec's position stays, or moves to the head of the file the last ROTATE
    among them names -/
theorem endPosAux_noCommit (mid : List W.Laid) (cur : W.Pos) (hn : NoCommit mid) :
    (NoRotate mid ∧ W.endPosAux mid cur = cur) ∨ (∃ y ∈ mid, ∃ f, y.tag = .rotateTo f ∧ W.endPosAux mid cur = ⟨f, 4⟩) := by
  rcases last_change mid with hs | ⟨c1, x, c2, cs, h1, h2, _⟩ | ⟨c1, x, c2, g, h1, h2, h3⟩
  · exact Or.inl ⟨fun y hy => (hs y hy).2, (still_self mid cur hs).2⟩
  · have := hn x (by rw [h1]; simp)
    rw [(isCommit_iff x).mpr ⟨cs, h2⟩] at this
    cases this
  · right
    refine ⟨x, by rw [h1]; simp, g, h2, ?_⟩
    rw [h1, endPosAux_rotate c1 x c2 g cur h2]
    exact (still_self c2 _ h3).2

/-- the first expected transaction: its start label is the start position, or the head of the file the last ROTATE
    before its commit event names -/
theorem expectedAux_first (l : List W.Laid) (cur : W.Pos) (t : W.ETx) (h : (W.expectedAux l cur)[0]? = some t) :
    ∃ mid e rest cs, l = mid ++ e :: rest ∧ e.tag = .commit cs ∧ NoCommit mid ∧
      t = ⟨W.endPosAux mid cur, ⟨e.file, e.next⟩, e.ts, cs⟩ ∧
      ((NoRotate mid ∧ t.now = cur) ∨ (∃ y ∈ mid, ∃ f, y.tag = .rotateTo f ∧ t.now = ⟨f, 4⟩)) := by
  obtain ⟨mid, e, rest, cs, h1, h2, h3, h4⟩ := expectedAux_get l cur 0 t h
  have hn := noCommit_of_length mid cur h3
  refine ⟨mid, e, rest, cs, h1, h2, hn, h4, ?_⟩
  rw [h4]
  exact endPosAux_noCommit mid cur hn

/-- the chain law: two consecutive expected transactions come from two commit events with no commit point between
    them; the second one starts where the first one ends unless a ROTATE lies between the two events, in which case it
    starts at the head ⟨f, 4⟩ of the file the last such ROTATE names -/
theorem expectedAux_chain (l : List W.Laid) (cur : W.Pos) (i : Nat) (a b : W.ETx)
    (ha : (W.expectedAux l cur)[i]? = some a) (hb : (W.expectedAux l cur)[i + 1]? = some b) :
    ∃ pre ea mid eb rest csa csb, l = pre ++ ea :: (mid ++ eb :: rest) ∧ ea.tag = .commit csa ∧ eb.tag = .commit csb ∧
      (W.expectedAux pre cur).length = i ∧ NoCommit mid ∧
      a.next = ⟨ea.file, ea.next⟩ ∧ b.next = ⟨eb.file, eb.next⟩ ∧
      ((NoRotate mid ∧ b.now = a.next) ∨ (∃ y ∈ mid, ∃ f, y.tag = .rotateTo f ∧ b.now = ⟨f, 4⟩)) := by
  obtain ⟨pre, ea, rest1, csa, h1, h2, h3, h4⟩ := expectedAux_get l cur i a ha
  have happ := expectedAux_append pre (ea :: rest1) cur
  rw [← h1] at happ
  have hcons : W.expectedAux (ea :: rest1) (W.endPosAux pre cur) = a :: W.expectedAux rest1 ⟨ea.file, ea.next⟩ := by
    rw [h4]; simp [W.expectedAux, h2]
  rw [happ, hcons, List.getElem?_append_right (by omega)] at hb
  have hidx : i + 1 - (W.expectedAux pre cur).length = 1 := by omega
  rw [hidx, List.getElem?_cons_succ] at hb
  obtain ⟨mid, eb, rest, csb, g1, g2, g3, g4, g5⟩ := expectedAux_first rest1 ⟨ea.file, ea.next⟩ b hb
  have hanext : a.next = ⟨ea.file, ea.next⟩ := by rw [h4]
  refine ⟨pre, ea, mid, eb, rest, csa, csb, by rw [h1, g1], h2, g2, h3, g3, hanext, by rw [g4], ?_⟩
  rw [hanext]
  exact g5

/-- consuming the events up to and including the commit event of the i-th transaction: the Spec's position is that
    transaction's end label, and i + 1 transactions are done -/
theorem take_through_commit (pre : List W.Laid) (e : W.Laid) (rest : List W.Laid) (cs : List W.Change) (cur : W.Pos)
    (ht : e.tag = .commit cs) :
    W.endPosAux ((pre ++ e :: rest).take (pre.length + 1)) cur = ⟨e.file, e.next⟩ ∧
    (W.expectedAux ((pre ++ e :: rest).take (pre.length + 1)) cur).length = (W.expectedAux pre cur).length + 1 := by
  have htk : (pre ++ e :: rest).take (pre.length + 1) = pre ++ [e] := by
    have : pre ++ e :: rest = (pre ++ [e]) ++ rest := by simp
    rw [this, List.take_left' (by simp)]
  rw [htk]
  refine ⟨?_, ?_⟩
  · rw [endPosAux_commit pre e [] cs cur ht]; rfl
  · rw [expectedAux_append]
    simp [W.expectedAux, ht]

/-! ### parser side: the two labels of a call name the same file -/

theorem stepD_deliver_file (st : PState) (d : Decoded) (tx : Transaction) (acc : PState)
    (h : stepD st d = .deliver tx acc) : tx.next.file = tx.now.file := by
  cases d <;> simp only [stepD] at h
  all_goals repeat' split at h
  all_goals first
    | (simp only [commitStep, Step.deliver.injEq] at h
       obtain ⟨rfl, _⟩ := h
       rfl)
    | cases h

theorem calls_same_file (env : Env) (acc : Transaction → Bool) : ∀ (l : List Input) (st : PState),
    ∀ tx ∈ (parseEvents env acc st l).calls, tx.next.file = tx.now.file
  | [], _, tx, h => by simp [parseEvents] at h
  | .closed :: _, _, tx, h => by simp [parseEvents] at h
  | .cancelled :: _, _, tx, h => by simp [parseEvents] at h
  | .event b :: rest, st, tx, h => by
    simp only [parseEvents] at h
    cases hs : stepEvent env st b with
    | cont st' =>
      rw [hs] at h
      exact calls_same_file env acc rest st' tx h
    | stop e c =>
      rw [hs] at h
      simp at h
    | deliver tx' st' =>
      rw [hs] at h
      have hf := stepD_deliver_file st _ tx' st' hs
      cases ha : acc tx' with
      | true =>
        simp only [ha, if_true, List.mem_cons] at h
        rcases h with rfl | h
        · exact hf
        · exact calls_same_file env acc rest st' tx h
      | false =>
        simp only [ha, Bool.false_eq_true, if_false, List.mem_cons, List.not_mem_nil, or_false] at h
        subst h
        exact hf

end C03b
end GV
