import GV.Lemmas.C13b
/-
  Helper lemmas for GV/Props/C12b.lean: the values a well-formed cell of a temporal column can hold (inversion of
  `W.CellOK` for the type codes 10 / 14, 11, 12, 7, 17, 19, 18), and a concrete history with one column of each
  temporal type for the non-vacuity examples.
-/
namespace GV
namespace C12b
open Bytes M GV.Props.C01 GV.Props.C01b GV.C01c GV.C13b

/-- the type codes of the temporal column types: DATE, NEWDATE, TIME, DATETIME, TIMESTAMP, TIMESTAMP2, TIME2, DATETIME2 -/
def temporalTypes : List Nat := [10, 14, 11, 12, 7, 17, 19, 18]

theorem inv_date (typ md : Nat) (u : Bool) (v : W.CellVal) (ht : typ = 10 ∨ typ = 14) (h : W.CellOK typ md u v) :
    ∃ y m d, v = .date y m d ∧ y ≤ 9999 ∧ m ≤ 12 ∧ d ≤ 31 := by
  cases v with
  | date y m d => exact ⟨y, m, d, rfl, h.2⟩
  | int _ _ | uint _ _ => simp only [W.CellOK, W.intTypes, List.mem_cons, Prod.mk.injEq, List.mem_nil_iff, or_false] at h; omega
  | _ => simp only [W.CellOK] at h; all_goals omega

theorem inv_time (md : Nat) (u : Bool) (v : W.CellVal) (h : W.CellOK 11 md u v) :
    ∃ neg hh m s, v = .time neg hh m s ∧ hh ≤ 838 ∧ m ≤ 59 ∧ s ≤ 59 ∧ (neg = true → hh + m + s ≠ 0) := by
  cases v <;> simp [W.CellOK, W.intTypes] at h
  case time neg hh m s => exact ⟨neg, hh, m, s, rfl, h.1, h.2.1, h.2.2.1, by simpa using h.2.2.2⟩

theorem inv_datetime (md : Nat) (u : Bool) (v : W.CellVal) (h : W.CellOK 12 md u v) :
    ∃ y mo d hh mi s, v = .datetime y mo d hh mi s ∧ y ≤ 9999 ∧ mo ≤ 12 ∧ d ≤ 31 ∧ hh ≤ 23 ∧ mi ≤ 59 ∧ s ≤ 59 := by
  cases v <;> simp [W.CellOK, W.intTypes] at h
  case datetime y mo d hh mi s => exact ⟨y, mo, d, hh, mi, s, rfl, h⟩

theorem inv_timestamp (md : Nat) (u : Bool) (v : W.CellVal) (h : W.CellOK 7 md u v) :
    ∃ sec, v = .timestamp sec ∧ sec < 2 ^ 32 := by
  cases v <;> simp [W.CellOK, W.intTypes] at h
  case timestamp sec => exact ⟨sec, rfl, h⟩

theorem inv_timestamp2 (md : Nat) (u : Bool) (v : W.CellVal) (h : W.CellOK 17 md u v) :
    ∃ sec frac, v = .timestamp2 sec frac ∧ md ≤ 6 ∧ sec < 2 ^ 32 ∧ frac < 10 ^ md := by
  cases v <;> simp [W.CellOK, W.intTypes] at h
  case timestamp2 sec frac => exact ⟨sec, frac, rfl, h⟩

theorem inv_time2 (md : Nat) (u : Bool) (v : W.CellVal) (h : W.CellOK 19 md u v) :
    ∃ neg hh m s frac, v = .time2 neg hh m s frac ∧ md ≤ 6 ∧ hh ≤ 838 ∧ m ≤ 59 ∧ s ≤ 59 ∧ frac < 10 ^ md ∧
      (neg = true → hh + m + s + frac ≠ 0) := by
  cases v <;> simp [W.CellOK, W.intTypes] at h
  case time2 neg hh m s frac =>
    exact ⟨neg, hh, m, s, frac, rfl, h.1, h.2.1, h.2.2.1, h.2.2.2.1, h.2.2.2.2.1, by simpa using h.2.2.2.2.2⟩

theorem inv_datetime2 (md : Nat) (u : Bool) (v : W.CellVal) (h : W.CellOK 18 md u v) :
    ∃ y mo d hh mi s frac, v = .datetime2 y mo d hh mi s frac ∧ md ≤ 6 ∧ y ≤ 9999 ∧ mo ≤ 12 ∧ d ≤ 31 ∧ hh ≤ 23 ∧
      mi ≤ 59 ∧ s ≤ 59 ∧ frac < 10 ^ md := by
  cases v <;> simp [W.CellOK, W.intTypes] at h
  case datetime2 y mo d hh mi s frac => exact ⟨y, mo, d, hh, mi, s, frac, rfl, h⟩

/-! ### a concrete history for the non-vacuity examples: DATE, TIME, DATETIME, TIMESTAMP, TIMESTAMP(3), TIME(2),
    DATETIME(6); the environment's time zone is UTC+1 -/

def tT : W.TableDef :=
  { id := 12, db := [100], name := [116],
    cols := [⟨10, 0, true⟩, ⟨11, 0, true⟩, ⟨12, 0, true⟩, ⟨7, 0, true⟩, ⟨17, 3, true⟩, ⟨19, 2, true⟩, ⟨18, 6, true⟩],
    names := [[97], [98], [99], [100], [101], [102], [103]],
    unsigned := [false, false, false, false, false, false, false] }

def tC : W.RowsChange :=
  { kind := .delete, table := tT, ts := 77, flags := 1, extra := [],
    presentBefore := [true, true, true, true, true, true, true],
    presentAfter := [true, true, true, true, true, true, true],
    rows := [([some (.date 2024 2 29), some (.time true 838 59 59), some (.datetime 1999 12 31 23 59 59),
               some (.timestamp 86400), some (.timestamp2 0 7), some (.time2 true 1 2 3 45),
               some (.datetime2 9999 12 31 23 59 59 999999)], [])],
    announce := true, tmOptional := [] }

def tHist : W.History := [.autoRows tC]
def tEnv : Env := ⟨⟨fun _ => [70], fun _ => [71], fun _ => [72], fun _ => 3600⟩, fun _ _ => some (infoOf tT)⟩


theorem tTOK : TableOK {} tT :=
  ⟨by decide, by
    intro c hc
    simp [tT] at hc
    rcases hc with rfl | rfl | rfl | rfl | rfl | rfl | rfl <;> (unfold Props.C15.ColOK; decide),
   by decide, rfl, rfl, by decide, by decide, by decide⟩

set_option exponentiation.threshold 512 in
theorem tCOK : RowsOK {} tC := by
  refine ⟨tTOK, rfl, rfl, by decide, by decide, by decide, ?_, ?_⟩
  · intro r hr
    simp only [tC, List.mem_cons, List.not_mem_nil, or_false] at hr
    subst hr
    refine ⟨fun _ => ⟨rfl, ?_⟩, fun h => absurd rfl h⟩
    intro p hp
    simp [tC, tT, colsU, W.selectPresent] at hp
    rcases hp with rfl | rfl | rfl | rfl | rfl | rfl | rfl <;> simp [W.CellOK]
  · decide

theorem tWF : WFHist {} tHist := by
  refine ⟨?_, ?_, ?_, ?_⟩
  · intro u hu
    simp only [tHist, List.mem_cons, List.not_mem_nil, or_false] at hu
    subst hu
    exact ⟨tCOK, by decide⟩
  · decide
  · exact ⟨Or.inl rfl, trivial⟩
  · decide

theorem tMapper : MapperAgrees tEnv tHist := by
  intro c hc
  simp [tHist, histRows, unitRows] at hc
  subst hc
  rfl

theorem tSite (j : Nat) (hj : j < 7) : Site {} tHist 0 0 tC false 0 j :=
  ⟨site_tx_of_bind (by decide), by decide, by decide, hj⟩

end C12b
end GV
