import GV.Model.Gtid
import GV.Model.Header
import GV.Spec.Events
import GV.Lemmas.Dec
/- helper lemmas for GV/Props/C19.lean -/
namespace GV
open M Bytes

theorem u8_ne_of_toNat_ne {c d : UInt8} (h : c.toNat ≠ d.toNat) : c ≠ d := fun e => h (e ▸ rfl)

/-! ### hex -/
theorem unhexDigit_hexDigit_lt : ∀ d, d < 16 → unhexDigit (hexDigit d) = some d := by decide

theorem unhexDigit_hexDigit (d : Nat) : unhexDigit (hexDigit d) = some (d % 16) := by
  have := unhexDigit_hexDigit_lt (d % 16) (Nat.mod_lt _ (by omega))
  simpa [hexDigit, Nat.mod_mod] using this

theorem unhex_hexByte_append (b : UInt8) (rest : Bytes) :
    unhex (hexByte b ++ rest) = (unhex rest).map (b :: ·) := by
  have hb : b.toNat < 256 := b.toNat_lt
  have : UInt8.ofNat (b.toNat / 16 % 16 * 16 + b.toNat % 16 % 16) = b := by
    have : b.toNat / 16 % 16 * 16 + b.toNat % 16 % 16 = b.toNat := by omega
    rw [this]; simp
  simp only [hexByte, List.cons_append, List.nil_append, unhex, unhexDigit_hexDigit]
  cases unhex rest
  · rfl
  · simp only [Option.map]; rw [this]

theorem unhex_hexOf_append (l rest : Bytes) : unhex (hexOf l ++ rest) = (unhex rest).map (l ++ ·) := by
  induction l with
  | nil => simp [hexOf]
  | cons b l ih =>
    have : hexOf (b :: l) ++ rest = hexByte b ++ (hexOf l ++ rest) := by simp [hexOf]
    rw [this, unhex_hexByte_append, ih]
    cases unhex rest <;> rfl

theorem unhex_hexOf (l : Bytes) : unhex (hexOf l) = some l := by
  simpa [unhex] using unhex_hexOf_append l []

def hexCh (c : UInt8) : Bool := (48 ≤ c.toNat && c.toNat ≤ 57) || (97 ≤ c.toNat && c.toNat ≤ 102)

theorem hexCh_hexDigit_lt : ∀ d, d < 16 → hexCh (hexDigit d) = true := by decide
theorem hexCh_hexDigit (d : Nat) : hexCh (hexDigit d) = true := by
  have := hexCh_hexDigit_lt (d % 16) (Nat.mod_lt _ (by omega))
  simpa [hexDigit, Nat.mod_mod] using this

theorem hexOf_chars (l : Bytes) : ∀ c ∈ hexOf l, hexCh c = true := by
  intro c hc
  simp only [hexOf, List.mem_flatMap, hexByte] at hc
  obtain ⟨b, _, hc⟩ := hc
  simp at hc
  rcases hc with rfl | rfl <;> exact hexCh_hexDigit _

@[simp] theorem hexOf_length (l : Bytes) : (hexOf l).length = 2 * l.length := by
  induction l with
  | nil => rfl
  | cons b l ih => simp [hexOf, hexByte] at ih ⊢; omega

/-! ### splitOn -/
theorem splitOn_ne_nil (sep : UInt8) (s : Bytes) : splitOn sep s ≠ [] := by
  induction s with
  | nil => simp [splitOn]
  | cons c cs ih =>
    simp only [splitOn]
    split
    · simp
    · split <;> simp

theorem splitOn_not_mem (sep : UInt8) (a : Bytes) (h : sep ∉ a) : splitOn sep a = [a] := by
  induction a with
  | nil => rfl
  | cons c cs ih =>
    simp only [List.mem_cons, not_or] at h
    have hc : c ≠ sep := fun e => h.1 e.symm
    simp [splitOn, hc, ih h.2]

theorem splitOn_append (sep : UInt8) (a b : Bytes) (h : sep ∉ a) :
    splitOn sep (a ++ sep :: b) = a :: splitOn sep b := by
  induction a with
  | nil => simp [splitOn]
  | cons c cs ih =>
    simp only [List.mem_cons, not_or] at h
    have hc : c ≠ sep := fun e => h.1 e.symm
    simp [splitOn, hc, ih h.2]

/-- a head piece followed by separator-prefixed pieces -/
theorem splitOn_flatMap {α} (sep : UInt8) (a : Bytes) (l : List α) (f : α → Bytes) (ha : sep ∉ a)
    (hf : ∀ x ∈ l, sep ∉ f x) :
    splitOn sep (a ++ l.flatMap (fun x => sep :: f x)) = a :: l.map f := by
  induction l generalizing a with
  | nil => simp [splitOn_not_mem sep a ha]
  | cons x xs ih =>
    simp only [List.flatMap_cons, List.cons_append, List.map_cons]
    rw [splitOn_append sep a _ ha, ih (f x) (hf x (by simp)) (fun y hy => hf y (by simp [hy]))]

/-! ### numbers -/
theorem isDigit_ne {c : UInt8} (h : isDigit c = true) (d : UInt8) (hd : d.toNat < 48 ∨ 57 < d.toNat) : c ≠ d := by
  apply u8_ne_of_toNat_ne
  simp [isDigit] at h; omega

theorem not_mem_natDec (n : Nat) (d : UInt8) (hd : d.toNat < 48 ∨ 57 < d.toNat) : d ∉ natDec n :=
  fun hm => isDigit_ne (natDec_all_digits n d hm) d hd rfl

theorem parseUintDec_natDec (n bits : Nat) (h : n < 2 ^ bits) : parseUintDec (natDec n) bits = some n := by
  unfold parseUintDec
  have h1 : (natDec n).isEmpty = false := by
    cases hx : natDec n with
    | nil => exact absurd hx (natDec_ne_nil n)
    | cons _ _ => rfl
  have h2 : allDigits (natDec n) = true := by
    simp only [allDigits, List.all_eq_true]; exact natDec_all_digits n
  simp [h1, h2, decValue_natDec, h]

theorem intDec_ofNat (n : Nat) : intDec (n : Int) = natDec n := by
  unfold intDec
  have : ¬ ((n : Int) < 0) := by omega
  simp [this]

theorem parseIntDec_natDec (n : Nat) (h : n < 2 ^ 63) : parseIntDec (natDec n) = some (n : Int) := by
  have hu := parseUintDec_natDec n 64 (by omega)
  cases hx : natDec n with
  | nil => exact absurd hx (natDec_ne_nil n)
  | cons c rest =>
    have hc : isDigit c = true := natDec_all_digits n c (by simp [hx])
    have h43 : c ≠ 43 := isDigit_ne hc 43 (by decide)
    have h45 : c ≠ 45 := isDigit_ne hc 45 (by decide)
    rw [hx] at hu
    simp [parseIntDec, h43, h45, hu, h]

theorem parseIntDec_intDec (v : Int) (h : -(2 ^ 63 : Int) ≤ v ∧ v < 2 ^ 63) : parseIntDec (intDec v) = some v := by
  by_cases hv : v < 0
  · have hu := parseUintDec_natDec v.natAbs 64 (by omega)
    have hle : v.natAbs ≤ 2 ^ 63 := by omega
    have : -(v.natAbs : Int) = v := by omega
    simp [intDec, hv, parseIntDec, hu, hle, this]
  · have : v = (v.natAbs : Int) := by omega
    rw [this, intDec_ofNat]
    exact parseIntDec_natDec _ (by omega)

theorem not_mem_intDec (v : Int) (d : UInt8) (hd : d.toNat < 45 ∨ 57 < d.toNat) : d ∉ intDec v := by
  unfold intDec
  split
  · simp only [List.mem_cons, not_or]
    refine ⟨u8_ne_of_toNat_ne (by have : (45 : UInt8).toNat = 45 := rfl; omega), not_mem_natDec _ d (by omega)⟩
  · exact not_mem_natDec _ d (by omega)

/-! ### SID text -/
def sidCh (c : UInt8) : Bool := c.toNat = 45 || hexCh c

theorem sidString_chars (sid : Bytes) : ∀ c ∈ sidString sid, sidCh c = true := by
  intro c hc
  simp only [sidString, List.mem_append, List.mem_singleton] at hc
  have hx : ∀ l, c ∈ hexOf l → sidCh c = true := fun l h => by simp [sidCh, hexOf_chars l c h]
  rcases hc with (((((((h | h) | h) | h) | h) | h) | h) | h) | h
  all_goals first | exact hx _ h | (subst h; decide)

theorem sidCh_ne {c : UInt8} (h : sidCh c = true) (d : UInt8)
    (hd : d.toNat < 45 ∨ d.toNat = 46 ∨ d.toNat = 47 ∨ (57 < d.toNat ∧ d.toNat < 97) ∨ 102 < d.toNat) : c ≠ d := by
  apply u8_ne_of_toNat_ne
  simp [sidCh, hexCh] at h; omega

theorem not_mem_sidString (sid : Bytes) (d : UInt8)
    (hd : d.toNat < 45 ∨ d.toNat = 46 ∨ d.toNat = 47 ∨ (57 < d.toNat ∧ d.toNat < 97) ∨ 102 < d.toNat) :
    d ∉ sidString sid :=
  fun hm => sidCh_ne (sidString_chars sid d hm) d hd rfl

theorem parseSID_sidString (sid : Bytes) (h : sid.length = 16) : parseSID (sidString sid) = some sid := by
  match sid, h with
  | [b0, b1, b2, b3, b4, b5, b6, b7, b8, b9, b10, b11, b12, b13, b14, b15], _ =>
    have := unhex_hexOf [b0, b1, b2, b3, b4, b5, b6, b7, b8, b9, b10, b11, b12, b13, b14, b15]
    simp only [hexOf, hexByte, List.flatMap_cons, List.flatMap_nil, List.cons_append, List.nil_append] at this
    simp [parseSID, sidString, hexOf, hexByte, this]

/-! ### single GTIDs -/
theorem parseGtid56_string (g : Gtid56) (h : g.sid.length = 16) (hs : -(2 ^ 63 : Int) ≤ g.seq ∧ g.seq < 2 ^ 63) :
    parseGtid56 (gtid56String g) = some g := by
  unfold parseGtid56 gtid56String
  rw [List.append_assoc, List.singleton_append, splitOn_append 58 _ _ (not_mem_sidString _ 58 (by decide)),
    splitOn_not_mem 58 _ (not_mem_intDec _ 58 (by decide))]
  simp [parseSID_sidString _ h, parseIntDec_intDec _ hs]

theorem parseGtidMaria_string (g : GtidMaria) (hd : g.domain < 2 ^ 32) (hs : g.server < 2 ^ 32) (hq : g.seq < 2 ^ 64) :
    parseGtidMaria (gtidMariaString g) = some g := by
  unfold parseGtidMaria gtidMariaString
  have e : natDec g.domain ++ [45] ++ natDec g.server ++ [45] ++ natDec g.seq
      = natDec g.domain ++ 45 :: (natDec g.server ++ 45 :: natDec g.seq) := by simp
  rw [e, splitOn_append 45 _ _ (not_mem_natDec _ 45 (by decide)),
    splitOn_append 45 _ _ (not_mem_natDec _ 45 (by decide)),
    splitOn_not_mem 45 _ (not_mem_natDec _ 45 (by decide))]
  simp [parseUintDec_natDec _ _ hd, parseUintDec_natDec _ _ hs, parseUintDec_natDec _ _ hq]

theorem not_mem_gtidMariaString (g : GtidMaria) (d : UInt8) (hd : d.toNat < 45 ∨ 57 < d.toNat) :
    d ∉ gtidMariaString g := by
  have h45 : d ≠ 45 := u8_ne_of_toNat_ne (by have : (45 : UInt8).toNat = 45 := rfl; omega)
  have hn : ∀ n, d ∉ natDec n := fun n => not_mem_natDec n d (by omega)
  simp [gtidMariaString, hn, h45]

/-! ### tagged encoding -/
theorem splitFirst_flavor56 (v : Bytes) : splitFirst 47 (flavor56 ++ [47] ++ v) = some (flavor56, v) := by
  simp [flavor56, asc, splitFirst]
theorem splitFirst_flavorMaria (v : Bytes) : splitFirst 47 (flavorMaria ++ [47] ++ v) = some (flavorMaria, v) := by
  simp [flavorMaria, asc, splitFirst]
theorem flavorMaria_ne_56 : flavorMaria ≠ flavor56 := by decide

/-! ### MariaDB set text -/
theorem parseSetMaria_go_map (l : SetMaria) (h : ∀ g ∈ l, g.domain < 2 ^ 32 ∧ g.server < 2 ^ 32 ∧ g.seq < 2 ^ 64) :
    parseSetMaria.go (l.map gtidMariaString) = some l := by
  induction l with
  | nil => rfl
  | cons g r ih =>
    have hg := h g (by simp)
    simp [parseSetMaria.go, parseGtidMaria_string g hg.1 hg.2.1 hg.2.2, ih (fun x hx => h x (by simp [hx]))]

theorem parseSetMaria_string (s : SetMaria) (hne : s ≠ [])
    (h : ∀ g ∈ s, g.domain < 2 ^ 32 ∧ g.server < 2 ^ 32 ∧ g.seq < 2 ^ 64) :
    parseSetMaria (setMariaString s) = some s := by
  cases s with
  | nil => exact absurd rfl hne
  | cons g rest =>
    show parseSetMaria.go (splitOn 44 (gtidMariaString g ++ rest.flatMap fun x => [44] ++ gtidMariaString x)) = _
    have e : (rest.flatMap fun x => [44] ++ gtidMariaString x) = rest.flatMap fun x => 44 :: gtidMariaString x := by
      simp
    rw [e, splitOn_flatMap 44 _ rest gtidMariaString (not_mem_gtidMariaString g 44 (by decide))
      (fun x _ => not_mem_gtidMariaString x 44 (by decide))]
    exact parseSetMaria_go_map (g :: rest) h

/-! ### MariaDB sets -/
theorem addGtid_go_domains (g : GtidMaria) (s : SetMaria) :
    (SetMaria.addGtid.go g s).map (·.domain) = s.map (·.domain) := by
  induction s with
  | nil => rfl
  | cons x xs ih =>
    simp only [SetMaria.addGtid.go]
    split
    · rename_i hx
      have hx' : x.domain = g.domain := by simpa using hx
      split <;> simp [hx']
    · simp [ih]

theorem maria_find_of_mem (s : SetMaria) (h : (s.map (·.domain)).Nodup) (x : GtidMaria) (hx : x ∈ s) :
    s.find? (fun y => y.domain == x.domain) = some x := by
  induction s with
  | nil => cases hx
  | cons y ys ih =>
    simp only [List.map_cons, List.nodup_cons] at h
    rcases List.mem_cons.mp hx with rfl | hx'
    · simp
    · have : y.domain ≠ x.domain := fun e => h.1 (e ▸ List.mem_map_of_mem (f := (·.domain)) hx')
      have hb : (y.domain == x.domain) = false := by simpa using this
      simp [List.find?, hb, ih h.2 hx']

theorem addGtid_go_spec (g : GtidMaria) (s : SetMaria) :
    (∀ x ∈ s, x.domain ≠ g.domain → x ∈ SetMaria.addGtid.go g s) ∧
    ((∃ x ∈ s, x.domain = g.domain) → ∃ y ∈ SetMaria.addGtid.go g s, y.domain = g.domain ∧ g.seq ≤ y.seq) ∧
    (∀ y ∈ SetMaria.addGtid.go g s, y = g ∨ y ∈ s) := by
  induction s with
  | nil => simp [SetMaria.addGtid.go]
  | cons x xs ih =>
    obtain ⟨ih1, ih2, ih3⟩ := ih
    simp only [SetMaria.addGtid.go]
    by_cases hx : x.domain = g.domain
    · simp only [hx, beq_self_eq_true, if_true]
      by_cases hq : g.seq > x.seq
      · simp only [hq, if_true]
        refine ⟨?_, ?_, ?_⟩
        · intro y hy hne
          rcases List.mem_cons.mp hy with rfl | hy'
          · exact absurd hx hne
          · simp [hy']
        · intro _; exact ⟨g, by simp, rfl, Nat.le_refl _⟩
        · intro y hy
          rcases List.mem_cons.mp hy with rfl | hy'
          · exact Or.inl rfl
          · exact Or.inr (by simp [hy'])
      · simp only [hq, if_false]
        refine ⟨?_, ?_, ?_⟩
        · intro y hy _; exact hy
        · intro _; exact ⟨x, by simp, hx, by omega⟩
        · intro y hy; exact Or.inr hy
    · have hb : (x.domain == g.domain) = false := by simpa using hx
      simp only [hb]
      refine ⟨?_, ?_, ?_⟩
      · intro y hy hne
        rcases List.mem_cons.mp hy with rfl | hy'
        · simp
        · simp [ih1 y hy' hne]
      · rintro ⟨y, hy, hyd⟩
        rcases List.mem_cons.mp hy with rfl | hy'
        · exact absurd hyd hx
        · obtain ⟨z, hz, hz2⟩ := ih2 ⟨y, hy', hyd⟩
          exact ⟨z, by simp [hz], hz2⟩
      · intro y hy
        rcases List.mem_cons.mp hy with rfl | hy'
        · exact Or.inr (by simp)
        · rcases ih3 y hy' with h | h
          · exact Or.inl h
          · exact Or.inr (by simp [h])

/-! ### events -/
theorem c19_header_length (ts typ sid len next flags : Nat) : (W.header ts typ sid len next flags).length = 19 := by
  simp [W.header]

theorem c19_hdr_sid (ts typ sid len next flags : Nat) (rest : Bytes) :
    evServerID (W.header ts typ sid len next flags ++ rest) = .ok (sid % 256 ^ 4) := by
  unfold evServerID W.header
  have := readLE_mid (ofLE 4 ts ++ [UInt8.ofNat typ]) (ofLE 4 len ++ (ofLE 4 next ++ (ofLE 2 flags ++ rest))) 4 sid
  simpa using this

theorem sliceFrom_append (h b : Bytes) (n : Nat) (hn : h.length = n) : Bytes.sliceFrom (h ++ b) n = .ok b := by
  subst hn; simp [Bytes.sliceFrom]

theorem gtidMaria_event (f : Format) (hf : f.headerLength = 19) (m : W.EvMeta) (start seq domain flags2 : Nat)
    (hseq : seq < 2 ^ 64) (hd : domain < 2 ^ 32) (hsid : m.sid < 2 ^ 32) (hfl : flags2 < 256) (extra : Bytes) :
    gtidMaria f (W.event none m 162 start (W.mariaGtidBody seq domain flags2 extra)).1
      = .ok (domain, m.sid, seq, flags2 % 2 == 0) := by
  unfold gtidMaria
  simp only [W.event, List.append_nil, Option.getD_none, hf]
  rw [sliceFrom_append _ _ 19 (c19_header_length ..), c19_hdr_sid]
  simp only [Res.ok_bind, W.mariaGtidBody]
  have h1 : Bytes.get (ofLE 8 seq ++ ofLE 4 domain ++ [UInt8.ofNat flags2] ++ extra) 12 = .ok (UInt8.ofNat flags2) := by
    have := get_mid (ofLE 8 seq ++ ofLE 4 domain) (UInt8.ofNat flags2) extra
    simpa using this
  have h2 : Bytes.sliceTo (ofLE 8 seq ++ ofLE 4 domain ++ [UInt8.ofNat flags2] ++ extra) 8 = .ok (ofLE 8 seq) := by
    simp [Bytes.sliceTo]
  have h3 : readLE (ofLE 8 seq ++ ofLE 4 domain ++ [UInt8.ofNat flags2] ++ extra) 8 4 = .ok (domain % 256 ^ 4) := by
    have := readLE_mid (ofLE 8 seq) ([UInt8.ofNat flags2] ++ extra) 4 domain
    simpa using this
  rw [h1, h2, h3]
  simp only [Res.ok_bind, Res.pure_eq, le_ofLE]
  have e1 : domain % 256 ^ 4 = domain := Nat.mod_eq_of_lt (by simpa using hd)
  have e2 : m.sid % 256 ^ 4 = m.sid := Nat.mod_eq_of_lt (by simpa using hsid)
  have e3 : seq % 256 ^ 8 = seq := Nat.mod_eq_of_lt (by simpa using hseq)
  have e4 : (UInt8.ofNat flags2).toNat = flags2 := by rw [UInt8.toNat_ofNat']; omega
  rw [e1, e2, e3, e4]

/-! ### sorting -/
theorem insertSorted_perm {α} (lt : α → α → Bool) (x : α) (l : List α) : (insertSorted lt x l).Perm (x :: l) := by
  induction l with
  | nil => exact List.Perm.refl _
  | cons y ys ih =>
    simp only [insertSorted]
    split
    · exact List.Perm.refl _
    · exact ((List.Perm.cons y ih).trans (List.Perm.swap x y ys))

theorem sortBy_perm {α} (lt : α → α → Bool) (l : List α) : (sortBy lt l).Perm l := by
  induction l with
  | nil => exact List.Perm.refl _
  | cons x xs ih =>
    show (insertSorted lt x (sortBy lt xs)).Perm (x :: xs)
    exact (insertSorted_perm lt x _).trans (List.Perm.cons x ih)

/-- adjacent elements in order -/
def AdjSorted {α} (lt : α → α → Bool) : List α → Prop
  | [] => True
  | [_] => True
  | a :: b :: r => lt a b = true ∧ AdjSorted lt (b :: r)

theorem sortBy_of_adjSorted {α} (lt : α → α → Bool) (l : List α) (h : AdjSorted lt l) : sortBy lt l = l := by
  induction l with
  | nil => rfl
  | cons a r ih =>
    show insertSorted lt a (sortBy lt r) = a :: r
    cases r with
    | nil => rfl
    | cons b r' =>
      rw [ih h.2]
      simp [insertSorted, h.1]

theorem sids_perm (s : Set56) : s.sids.Perm (s.map (·.1)) := sortBy_perm _ _

/-! ### association lists -/
theorem set56_find_none (s : Set56) (k : Bytes) (h : k ∉ s.map (·.1)) : s.find? (fun p => p.1 == k) = none := by
  rw [List.find?_eq_none]
  intro p hp
  simp only [beq_iff_eq]
  intro e; exact h (e ▸ List.mem_map_of_mem (f := (·.1)) hp)

theorem set56_get_not_mem (s : Set56) (k : Bytes) (h : k ∉ s.map (·.1)) : s.get k = [] := by
  simp [Set56.get, set56_find_none s k h]

theorem set56_put_new (s : Set56) (k : Bytes) (v : List Iv) (h : k ∉ s.map (·.1)) : s.put k v = s ++ [(k, v)] := by
  simp [Set56.put, Set56.has, set56_find_none s k h]

theorem set56_get_of_mem (s : Set56) (hn : (s.map (·.1)).Nodup) (p : Bytes × List Iv) (hp : p ∈ s) :
    s.get p.1 = p.2 := by
  induction s with
  | nil => cases hp
  | cons q r ih =>
    simp only [List.map_cons, List.nodup_cons] at hn
    rcases List.mem_cons.mp hp with rfl | hp'
    · simp [Set56.get]
    · have hne : q.1 ≠ p.1 := fun e => hn.1 (e ▸ List.mem_map_of_mem (f := (·.1)) hp')
      have hb : (q.1 == p.1) = false := by simpa using hne
      have := ih hn.2 hp'
      simp only [Set56.get, List.find?, hb] at this ⊢
      exact this

theorem set56_get_keyed (ks : List Bytes) (f : Bytes → List Iv) (k : Bytes) :
    Set56.get (ks.map fun k => (k, f k)) k = if k ∈ ks then f k else [] := by
  induction ks with
  | nil => rfl
  | cons a r ih =>
    by_cases ha : a = k
    · subst ha; simp [Set56.get]
    · have hb : (a == k) = false := by simpa using ha
      have hk : ¬ k = a := fun e => ha e.symm
      simp only [Set56.get, List.map_cons, List.find?, hb, List.mem_cons, hk, false_or] at ih ⊢
      exact ih

instance ivReflBEq : ReflBEq Iv := ⟨fun {a} => by cases a; simp [BEq.beq, instBEqIv.beq]⟩

/-- the set rebuilt key by key from the sorted key list is the same set -/
theorem set56_rebuild (s : Set56) :
    (∀ sid, Set56.get (s.sids.map fun k => (k, s.get k)) sid = s.get sid) ∧
    Set56.equal (s.sids.map fun k => (k, s.get k)) s = true := by
  have hp := sids_perm s
  constructor
  · intro sid
    rw [set56_get_keyed]
    split
    · rfl
    · rename_i hm
      exact (set56_get_not_mem s sid (fun h => hm (hp.mem_iff.mpr h))).symm
  · simp only [Set56.equal, List.length_map, Bool.and_eq_true, beq_iff_eq, List.all_eq_true]
    refine ⟨by simpa using hp.length_eq, ?_⟩
    intro p hp'
    simp only [List.mem_map] at hp'
    obtain ⟨k, _, rfl⟩ := hp'
    simp

/-! ### well-formed interval lists (same definition as `Props.C19.WFIvs`) -/
def WFIvs0 : List Iv → Prop
  | [] => True
  | [a] => 1 ≤ a.start ∧ a.start ≤ a.stop ∧ a.stop < 2 ^ 63 - 1
  | a :: b :: r => 1 ≤ a.start ∧ a.start ≤ a.stop ∧ a.stop + 2 ≤ b.start ∧ WFIvs0 (b :: r)

def IvOK (iv : Iv) : Prop := 1 ≤ iv.start ∧ iv.start ≤ iv.stop ∧ iv.stop < 2 ^ 63 - 1

theorem wfIvs0_all (l : List Iv) (h : WFIvs0 l) : ∀ iv ∈ l, IvOK iv := by
  induction l with
  | nil => intro iv hiv; cases hiv
  | cons a r ih =>
    cases r with
    | nil => intro iv hiv; simp at hiv; subst hiv; exact h
    | cons b r' =>
      obtain ⟨h1, h2, h3, h4⟩ := h
      have hb := ih h4 b (by simp)
      intro iv hiv
      rcases List.mem_cons.mp hiv with rfl | hiv'
      · unfold IvOK at hb ⊢; omega
      · exact ih h4 iv hiv'

theorem wfIvs0_sorted (l : List Iv) (h : WFIvs0 l) :
    AdjSorted (fun a b : Iv => decide (a.start < b.start)) l := by
  induction l with
  | nil => trivial
  | cons a r ih =>
    cases r with
    | nil => trivial
    | cons b r' =>
      obtain ⟨h1, h2, h3, h4⟩ := h
      exact ⟨by simp; omega, ih h4⟩

theorem wfIvs0_length_aux (a : Iv) (r : List Iv) (h : WFIvs0 (a :: r)) : a.start + r.length < 2 ^ 63 - 1 := by
  induction r generalizing a with
  | nil => obtain ⟨h1, h2, h3⟩ := h; simp; omega
  | cons b r' ih =>
    obtain ⟨h1, h2, h3, h4⟩ := h
    have := ih b h4
    simp at this ⊢; omega

theorem wfIvs0_length (l : List Iv) (h : WFIvs0 l) : l.length < 2 ^ 64 := by
  cases l with
  | nil => simp
  | cons a r =>
    have := wfIvs0_length_aux a r h
    have h1 : 1 ≤ a.start := by cases r with
      | nil => exact h.1
      | cons _ _ => exact h.1
    simp; omega

/-! ### interval text -/
def ivBody (iv : Iv) : Bytes := intDec iv.start ++ (if iv.stop != iv.start then [45] ++ intDec iv.stop else [])

theorem ivString_eq (iv : Iv) : ivString iv = 58 :: ivBody iv := by simp [ivString, ivBody]

theorem not_mem_ivBody (iv : Iv) (d : UInt8) (hd : d.toNat < 45 ∨ 57 < d.toNat) : d ∉ ivBody iv := by
  have h45 : d ≠ 45 := u8_ne_of_toNat_ne (by have : (45 : UInt8).toNat = 45 := rfl; omega)
  have hn : ∀ v, d ∉ intDec v := fun v => not_mem_intDec v d hd
  unfold ivBody
  split <;> simp [hn, h45]

theorem parseInterval_ivBody (iv : Iv) (h : IvOK iv) : parseInterval (ivBody iv) = some iv := by
  obtain ⟨h1, h2, h3⟩ := h
  obtain ⟨st, en⟩ := iv
  simp only at h1 h2 h3
  have es : st = (st.toNat : Int) := by omega
  have ee : en = (en.toNat : Int) := by omega
  have ps : parseIntDec (natDec st.toNat) = some st := by
    have := parseIntDec_natDec st.toNat (by omega); rwa [← es] at this
  have pe : parseIntDec (natDec en.toNat) = some en := by
    have := parseIntDec_natDec en.toNat (by omega); rwa [← ee] at this
  have hlt : ¬ st < 1 := by omega
  unfold ivBody parseInterval
  simp only
  rw [es, ee, intDec_ofNat, intDec_ofNat, ← es, ← ee]
  by_cases he : en = st
  · subst he
    simp only [bne_self_eq_false, Bool.false_eq_true, if_false, List.append_nil]
    rw [splitOn_not_mem 45 _ (not_mem_natDec _ 45 (by decide))]
    simp [ps, hlt]
  · have hb : (en != st) = true := by simpa using he
    simp only [hb, if_true]
    rw [List.singleton_append, splitOn_append 45 _ _ (not_mem_natDec _ 45 (by decide)),
      splitOn_not_mem 45 _ (not_mem_natDec _ 45 (by decide))]
    simp [ps, pe, hlt]

theorem parseIntervals_map (ivs : List Iv) (h : ∀ iv ∈ ivs, IvOK iv) :
    parseIntervals (ivs.map ivBody) = some ivs := by
  induction ivs with
  | nil => rfl
  | cons iv r ih =>
    have hiv := h iv (by simp)
    have : ¬ iv.stop < iv.start := by unfold IvOK at hiv; omega
    simp [parseIntervals, parseInterval_ivBody iv hiv, ih (fun x hx => h x (by simp [hx])), this]

/-! ### one SID with its intervals -/
def unit56 (k : Bytes) (ivs : List Iv) : Bytes := sidString k ++ ivs.flatMap ivString

theorem not_mem_unit56 (k : Bytes) (ivs : List Iv) (d : UInt8) (hd : d.toNat < 45) : d ∉ unit56 k ivs := by
  have h58 : d ≠ 58 := u8_ne_of_toNat_ne (by have : (58 : UInt8).toNat = 58 := rfl; omega)
  simp only [unit56, List.mem_append, List.mem_flatMap, not_or, not_exists, not_and]
  refine ⟨not_mem_sidString k d (Or.inl hd), ?_⟩
  intro iv _
  rw [ivString_eq]
  simp [h58, not_mem_ivBody iv d (Or.inl hd)]

theorem isSpace_lt {c : UInt8} (h : isSpace c = true) : c.toNat < 45 := by
  simp [isSpace] at h
  rcases h with ((((h | h) | h) | h) | h) | h <;> subst h <;> decide

theorem dropWhile_none {α} (p : α → Bool) (l : List α) (h : ∀ x ∈ l, p x = false) : l.dropWhile p = l := by
  cases l with
  | nil => rfl
  | cons a r => simp [List.dropWhile, h a (by simp)]

theorem trimSpace_id (s : Bytes) (h : ∀ c ∈ s, isSpace c = false) : trimSpace s = s := by
  unfold trimSpace
  rw [dropWhile_none _ s h, dropWhile_none _ s.reverse (fun c hc => h c (by simpa using hc))]
  simp

theorem trimSpace_unit56 (k : Bytes) (ivs : List Iv) : trimSpace (unit56 k ivs) = unit56 k ivs := by
  apply trimSpace_id
  intro c hc
  cases hs : isSpace c with
  | false => rfl
  | true => exact absurd hc (not_mem_unit56 k ivs c (isSpace_lt hs))

theorem splitOn_unit56 (k : Bytes) (ivs : List Iv) : splitOn 58 (unit56 k ivs) = sidString k :: ivs.map ivBody := by
  unfold unit56
  have e : ivs.flatMap ivString = ivs.flatMap fun iv => 58 :: ivBody iv := by
    rfl
  rw [e, splitOn_flatMap 58 _ ivs ivBody (not_mem_sidString k 58 (by decide))
    (fun iv _ => not_mem_ivBody iv 58 (by decide))]

theorem unit56_ne_nil (k : Bytes) (ivs : List Iv) : (unit56 k ivs).isEmpty = false := by
  simp [unit56, sidString]

theorem parseSet56Parts_unit (k : Bytes) (ivs : List Iv) (hk : k.length = 16) (hne : ivs ≠ []) (hwf : WFIvs0 ivs)
    (us : List Bytes) (acc : Set56) :
    parseSet56Parts (unit56 k ivs :: us) acc = parseSet56Parts us (acc.put k ivs) := by
  rw [parseSet56Parts]
  simp only [trimSpace_unit56, unit56_ne_nil, splitOn_unit56, parseSID_sidString k hk,
    parseIntervals_map ivs (wfIvs0_all ivs hwf), sortBy_of_adjSorted _ ivs (wfIvs0_sorted ivs hwf)]
  cases ivs with
  | nil => exact absurd rfl hne
  | cons a r => simp

theorem parseSet56Parts_units (get : Bytes → List Iv) (ks : List Bytes) (acc : Set56)
    (hk : ∀ k ∈ ks, k.length = 16 ∧ get k ≠ [] ∧ WFIvs0 (get k)) (hnd : ks.Nodup)
    (hnew : ∀ k ∈ ks, k ∉ acc.map (·.1)) :
    parseSet56Parts (ks.map fun k => unit56 k (get k)) acc = some (acc ++ ks.map fun k => (k, get k)) := by
  induction ks generalizing acc with
  | nil => simp [parseSet56Parts]
  | cons k r ih =>
    obtain ⟨h1, h2, h3⟩ := hk k (by simp)
    simp only [List.nodup_cons] at hnd
    rw [List.map_cons, parseSet56Parts_unit k (get k) h1 h2 h3, set56_put_new acc k _ (hnew k (by simp)),
      ih _ (fun x hx => hk x (by simp [hx])) hnd.2]
    · simp
    · intro x hx
      simp only [List.map_append, List.map_cons, List.map_nil, List.mem_append, List.mem_singleton, not_or]
      exact ⟨hnew x (by simp [hx]), fun e => hnd.1 (e ▸ hx)⟩

/-! ### the whole set as text -/
theorem set56String_go_false (s : Set56) (ks : List Bytes) :
    set56String.go s ks false = ks.flatMap fun k => 44 :: unit56 k (s.get k) := by
  induction ks with
  | nil => rfl
  | cons k r ih => simp [set56String.go, ih, unit56]

theorem set56String_go_true (s : Set56) (k : Bytes) (ks : List Bytes) :
    set56String.go s (k :: ks) true = unit56 k (s.get k) ++ ks.flatMap fun k => 44 :: unit56 k (s.get k) := by
  simp [set56String.go, set56String_go_false, unit56]

/-- facts about the sorted key list of a set with distinct keys -/
theorem sids_nodup (s : Set56) (hn : (s.map (·.1)).Nodup) : s.sids.Nodup := (sids_perm s).nodup_iff.mpr hn

theorem sids_get (s : Set56) (hn : (s.map (·.1)).Nodup) (k : Bytes) (hk : k ∈ s.sids) : (k, s.get k) ∈ s := by
  have := (sids_perm s).mem_iff.mp hk
  simp only [List.mem_map] at this
  obtain ⟨p, hp, rfl⟩ := this
  rw [set56_get_of_mem s hn p hp]; exact hp

theorem parseSet56_string (s : Set56) (hn : (s.map (·.1)).Nodup)
    (hk : ∀ p ∈ s, p.1.length = 16 ∧ p.2 ≠ [] ∧ WFIvs0 p.2) :
    parseSet56 (set56String s) = some (s.sids.map fun k => (k, s.get k)) := by
  have hks : ∀ k ∈ s.sids, k.length = 16 ∧ s.get k ≠ [] ∧ WFIvs0 (s.get k) :=
    fun k hkm => hk _ (sids_get s hn k hkm)
  have hnd := sids_nodup s hn
  unfold parseSet56 set56String
  generalize s.sids = ks at hks hnd
  cases ks with
  | nil => simp [set56String.go, splitOn, parseSet56Parts, trimSpace]
  | cons k r =>
    rw [set56String_go_true, splitOn_flatMap 44 _ r (fun k => unit56 k (s.get k)) (not_mem_unit56 _ _ 44 (by decide))
      (fun x _ => not_mem_unit56 _ _ 44 (by decide))]
    have := parseSet56Parts_units s.get (k :: r) [] hks hnd (by simp)
    simpa using this

/-! ### SID block -/
def ivBin (iv : Iv) : Bytes := ofLE 8 (ofInt 64 iv.start) ++ ofLE 8 (ofInt 64 (iv.stop + 1))

def blk56 (k : Bytes) (ivs : List Iv) : Bytes := k ++ ofLE 8 ivs.length ++ ivs.flatMap ivBin

@[simp] theorem ivBin_length (iv : Iv) : (ivBin iv).length = 16 := by simp [ivBin]

theorem ivBin_flatMap_length (ivs : List Iv) : (ivs.flatMap ivBin).length = 16 * ivs.length := by
  induction ivs with
  | nil => rfl
  | cons a r ih => simp only [List.flatMap_cons, List.length_append, ivBin_length, ih, List.length_cons]; omega

theorem take_drop_mid (a b c : Bytes) (n m : Nat) (hn : n = a.length) (hm : m = b.length) :
    ((a ++ (b ++ c)).drop n).take m = b := by
  subst hn hm; simp

theorem ivBin_start (iv : Iv) (h : IvOK iv) : i64 (ofInt 64 iv.start % 256 ^ 8) = iv.start := by
  obtain ⟨h1, h2, h3⟩ := h
  unfold i64 toSigned ofInt; simp only [Nat.reducePow, Nat.reduceSub] at h3 ⊢; omega

theorem ivBin_stop (iv : Iv) (h : IvOK iv) : i64 (subU64 (ofInt 64 (iv.stop + 1) % 256 ^ 8) 1) = iv.stop := by
  obtain ⟨h1, h2, h3⟩ := h
  unfold i64 toSigned ofInt subU64; simp only [Nat.reducePow, Nat.reduceSub] at h3 ⊢; omega

theorem readIvs_bin (ivs : List Iv) (h : ∀ iv ∈ ivs, IvOK iv) (pre tail acc data) (n pos : Nat)
    (hd : data = pre ++ (ivs.flatMap ivBin ++ tail)) (hn : n = ivs.length) (hp : pos = pre.length) :
    readIvs data n pos acc = some (acc ++ ivs, pos + 16 * ivs.length) := by
  induction ivs generalizing pre acc n pos with
  | nil => subst hn; simp [readIvs]
  | cons iv r ih =>
    subst hn hp
    have hlen : data.length = pre.length + (16 + (16 * r.length + tail.length)) := by
      rw [hd]; simp only [List.flatMap_cons, List.length_append, ivBin_length, ivBin_flatMap_length]; omega
    have hg : ¬ pre.length + 16 > data.length := by omega
    have e1 : (data.drop pre.length).take 8 = ofLE 8 (ofInt 64 iv.start) := by
      rw [hd]; simp only [List.flatMap_cons, ivBin, List.append_assoc]
      exact take_drop_mid _ _ _ _ _ rfl (by simp)
    have e2 : (data.drop (pre.length + 8)).take 8 = ofLE 8 (ofInt 64 (iv.stop + 1)) := by
      rw [hd]; simp only [List.flatMap_cons, ivBin, List.append_assoc]
      rw [← List.append_assoc pre]
      exact take_drop_mid _ _ _ _ _ (by simp) (by simp)
    simp only [List.length_cons, readIvs, hg, if_false, e1, e2, le_ofLE]
    rw [ivBin_start iv (h iv (by simp)), ivBin_stop iv (h iv (by simp))]
    rw [ih (fun x hx => h x (by simp [hx])) (pre ++ ivBin iv) (acc ++ [iv]) r.length (pre.length + 16)
      (by rw [hd]; simp) rfl (by simp [ivBin])]
    simp; omega

theorem blk56_length (k : Bytes) (ivs : List Iv) (hk : k.length = 16) :
    (blk56 k ivs).length = 24 + 16 * ivs.length := by
  simp only [blk56, List.length_append, hk, ofLE_length, ivBin_flatMap_length]

theorem blk56_flatMap_length_ge (get : Bytes → List Iv) (ks : List Bytes) (hk : ∀ k ∈ ks, k.length = 16) :
    ks.length ≤ (ks.flatMap fun k => blk56 k (get k)).length := by
  induction ks with
  | nil => simp
  | cons k r ih =>
    have := ih (fun x hx => hk x (by simp [hx]))
    simp only [List.flatMap_cons, List.length_append, List.length_cons, blk56_length k _ (hk k (by simp))]
    omega

theorem readSids_bin (get : Bytes → List Iv) (ks : List Bytes) (pre tail : Bytes) (acc : Set56) (data : Bytes)
    (n pos : Nat)
    (hk : ∀ k ∈ ks, k.length = 16 ∧ get k ≠ [] ∧ WFIvs0 (get k)) (hnd : ks.Nodup)
    (hnew : ∀ k ∈ ks, k ∉ acc.map (·.1))
    (hd : data = pre ++ ((ks.flatMap fun k => blk56 k (get k)) ++ tail)) (hn : n = ks.length)
    (hp : pos = pre.length) :
    readSids data n pos acc = some (acc ++ ks.map fun k => (k, get k)) := by
  induction ks generalizing pre acc n pos with
  | nil => subst hn; simp [readSids]
  | cons k r ih =>
    subst hn hp
    obtain ⟨h1, h2, h3⟩ := hk k (by simp)
    simp only [List.nodup_cons] at hnd
    have hcnt := wfIvs0_length _ h3
    -- shape of the data
    have hd' : data = pre ++ (k ++ (ofLE 8 (get k).length ++ ((get k).flatMap ivBin
        ++ ((r.flatMap fun k => blk56 k (get k)) ++ tail)))) := by
      rw [hd]; simp [blk56]
    have hlen : data.length = pre.length + (24 + (16 * (get k).length
        + ((r.flatMap fun k => blk56 k (get k)).length + tail.length))) := by
      rw [hd']; simp only [List.length_append, ofLE_length, ivBin_flatMap_length, h1]; omega
    have hg1 : ¬ pre.length + 16 > data.length := by omega
    have hg2 : ¬ pre.length + 24 > data.length := by omega
    have e1 : (data.drop pre.length).take 16 = k := by
      rw [hd']; exact take_drop_mid _ _ _ _ _ rfl h1.symm
    have e2 : (data.drop (pre.length + 16)).take 8 = ofLE 8 (get k).length := by
      rw [hd', ← List.append_assoc pre]
      exact take_drop_mid _ _ _ _ _ (by simp [h1]) (by simp)
    have ecnt : (get k).length % 256 ^ 8 = (get k).length := Nat.mod_eq_of_lt (by simpa using hcnt)
    have hg3 : ¬ (get k).length > data.length := by omega
    have hiv := readIvs_bin (get k) (wfIvs0_all _ h3) (pre ++ (k ++ ofLE 8 (get k).length))
      ((r.flatMap fun k => blk56 k (get k)) ++ tail) [] data (get k).length (pre.length + 24)
      (by rw [hd']; simp) rfl (by simp [h1])
    have hemp : (get k).isEmpty = false := by
      cases hx : get k with
      | nil => exact absurd hx h2
      | cons _ _ => rfl
    simp only [List.length_cons, readSids, hg1, hg2, if_false, e1, e2, le_ofLE, ecnt, hg3, hiv, List.nil_append,
      hemp, Bool.false_eq_true]
    rw [set56_get_not_mem acc k (hnew k (by simp)), List.nil_append, set56_put_new acc k _ (hnew k (by simp))]
    rw [ih (pre ++ blk56 k (get k)) (acc ++ [(k, get k)]) r.length (pre.length + 24 + 16 * (get k).length)
      (fun x hx => hk x (by simp [hx])) hnd.2 ?_ (by rw [hd]; simp) rfl
      (by rw [List.length_append, blk56_length k _ h1]; omega)]
    · simp
    · intro x hx
      simp only [List.map_append, List.map_cons, List.map_nil, List.mem_append, List.mem_singleton, not_or]
      exact ⟨hnew x (by simp [hx]), fun e => hnd.1 (e ▸ hx)⟩

theorem sidBlock_eq (s : Set56) :
    sidBlock s = ofLE 8 s.length ++ s.sids.flatMap fun k => blk56 k (s.get k) := by
  rfl

theorem fromSidBlock_sidBlock (s : Set56) (hn : (s.map (·.1)).Nodup) (hlen : s.length < 2 ^ 64)
    (hk : ∀ p ∈ s, p.1.length = 16 ∧ p.2 ≠ [] ∧ WFIvs0 p.2) (extra : Bytes) :
    fromSidBlock (sidBlock s ++ extra) = some (s.sids.map fun k => (k, s.get k)) := by
  have hks : ∀ k ∈ s.sids, k.length = 16 ∧ s.get k ≠ [] ∧ WFIvs0 (s.get k) :=
    fun k hkm => hk _ (sids_get s hn k hkm)
  have hnd := sids_nodup s hn
  have hl : s.sids.length = s.length := by simpa using (sids_perm s).length_eq
  have hge := blk56_flatMap_length_ge s.get s.sids (fun k hkm => (hks k hkm).1)
  have hd : sidBlock s ++ extra = ofLE 8 s.length ++ ((s.sids.flatMap fun k => blk56 k (s.get k)) ++ extra) := by
    rw [sidBlock_eq]; simp
  have hdl : (sidBlock s ++ extra).length
      = 8 + ((s.sids.flatMap fun k => blk56 k (s.get k)).length + extra.length) := by
    rw [hd]; simp
  have e1 : (sidBlock s ++ extra).take 8 = ofLE 8 s.length := by rw [hd]; simp
  have en : s.length % 256 ^ 8 = s.length := Nat.mod_eq_of_lt (by simpa using hlen)
  have hg1 : ¬ (sidBlock s ++ extra).length < 8 := by omega
  have hg2 : ¬ s.length > (sidBlock s ++ extra).length := by omega
  unfold fromSidBlock
  simp only [hg1, if_false, e1, le_ofLE, en, hg2]
  have := readSids_bin s.get s.sids (ofLE 8 s.length) extra [] _ s.length 8 hks hnd (by simp) hd hl.symm (by simp)
  simpa using this

end GV
