import GV.Lemmas.C13b
import GV.Lemmas.C10b
import GV.Lemmas.C11b
import GV.Lemmas.C12b
import GV.Lemmas.C14b
/-
  Concrete histories WITH A TABLE ID RE-USED FOR ANOTHER TABLE for the non-vacuity examples of GV/Props/C13c.lean (the
  cell-level properties C10–C14 END TO END under `GV.C15c.WFHistReuse`).  The general lemmas (`site_rowsOK_reuse`,
  `delivered_col_reuse`, `delivered_value_reuse`) are in GV/Lemmas/C13b.lean.

    sHist     the regression example of GV/Lemmas/C15c.lean (`exReuse`) with the two tables differing in the SIGNEDNESS of
              a same-width integer column at the same ordinal:
                file 1:  BEGIN, TABLE_MAP 108 = shop.orders (amount INT, order_id BIGINT), WRITE (-250, 7001), XID
                STOP, (master restart) bin.000002
                file 2:  BEGIN, TABLE_MAP 108 = shop.users (uid INT UNSIGNED, age TINYINT),
                         WRITE (4000000000, 33), (7, NULL), XID
              uid = 4000000000 has the top bit set: read with the flag of shop.orders' column 0 it is -294967296.
    deliveredTable calls i k   the table (database, name) the k-th event of the handler's i-th call is attributed to
    runCallsOld   `runCalls` for the OLD control flow (`GV.C15c.parseEventsOld`: every cached id is known)
    pre id ++ h   a transaction writing one row into d.s (z INT) announced under table id `id`, a master restart, and
              then one of the concrete histories of the earlier files whose table uses that very id:
              `rHist` (id 9, GV/Lemmas/C13b.lean), `qHist` (id 11, C10b), `tHist` (id 12, C12b), `jHist` (id 12, C14b)
    envFor E t    the mapper that knows d.s (under t's id) and t
-/
namespace GV
namespace C13c
open Bytes M GV.Props.C01 GV.Props.C01b GV.C01c GV.C13b GV.C15b GV.C15c

/-! ### the table a delivered event is attributed to -/

/-- the table (database, name) the k-th event of the handler's i-th call is attributed to -/
def deliveredTable (calls : List Transaction) (i k : Nat) : Option (Bytes × Bytes) :=
  match calls[i]? with
  | none => none
  | some tx => (tx.events[k]?).map (·.table)

/-- the event of a site is attributed to the table announced for ITS rows change — also when the table id was used for
    another table before -/
theorem delivered_table_reuse (cfg : W.Cfg) (env : Env) (h : W.History) (hwf : WFHistReuse cfg h)
    (hm : MapperAgrees env h) (i k : Nat) (c : W.RowsChange) (after : Bool) (r j : Nat)
    (hs : Site cfg h i k c after r j) :
    deliveredTable (runCalls cfg env h) i k = some (c.table.db, c.table.name) := by
  obtain ⟨t, ht, hc⟩ := hs.tx
  have hev : (toTx env.ext t).events[k]? = some (seOfRows env.ext c) := by
    simp [toTx, hc, seOfChange]
  unfold deliveredTable
  rw [runCalls_reuse cfg env h hwf hm]
  simp only [List.getElem?_map, ht, Option.map_some, hev]
  rfl

/-! ### shop.orders / shop.users under table id 108, differing in signedness -/

/-- shop.orders (amount INT — signed —, order_id BIGINT), table id 108 — file 1 -/
def tOrdersS : W.TableDef :=
  { id := 108, db := asc "shop", name := asc "orders", cols := [⟨3, 0, true⟩, ⟨8, 0, false⟩],
    names := [asc "amount", asc "order_id"], unsigned := [false, false] }
/-- shop.users (uid INT UNSIGNED, age TINYINT), table id 108 AGAIN — file 2, after the restart -/
def tUsersU : W.TableDef :=
  { id := 108, db := asc "shop", name := asc "users", cols := [⟨3, 0, false⟩, ⟨1, 0, true⟩],
    names := [asc "uid", asc "age"], unsigned := [true, false] }

/-- INSERT INTO shop.orders VALUES (-250, 7001) -/
def cOrdersS : W.RowsChange :=
  { kind := .write, table := tOrdersS, ts := 100, flags := 1, extra := [], presentBefore := [true, true],
    presentAfter := [true, true], rows := [([], [some (.int 4 (-250)), some (.int 8 7001)])],
    announce := true, tmOptional := [] }
/-- INSERT INTO shop.users VALUES (4000000000, 33), (7, NULL) -/
def cUsersU : W.RowsChange :=
  { kind := .write, table := tUsersU, ts := 200, flags := 1, extra := [], presentBefore := [true, true],
    presentAfter := [true, true],
    rows := [([], [some (.uint 4 4000000000), some (.int 1 33)]), ([], [some (.uint 4 7), none])],
    announce := true, tmOptional := [] }

def sHist : W.History :=
  [.tx (asc "BEGIN") [.rows cOrdersS] (.xid 21) 100,
   .restart (asc "bin.000002"),
   .tx (asc "BEGIN") [.rows cUsersU] (.xid 5) 200]

/-- the mapper knows shop.orders and shop.users -/
def sEnv : Env :=
  ⟨exExt, fun db n => if db = asc "shop" ∧ n = asc "orders" then some (infoOf tOrdersS)
                      else if db = asc "shop" ∧ n = asc "users" then some (infoOf tUsersU) else none⟩

/-- the handler calls of the OLD control flow (streamer.go as found: every cached table id is known) on the same input as
    `runCalls` -/
def runCallsOld (cfg : W.Cfg) (env : Env) (h : W.History) : List Transaction :=
  (parseEventsOld env (fun _ => true) (PState.init ⟨W.firstFile, 4⟩)
    ((W.serve cfg h ⟨W.firstFile, 4⟩).map Input.event ++ [Input.closed])).calls

/-- name and type of a delivered column -/
def nameType (cd : Option ColumnData) : Option (Bytes × Nat) := cd.map fun c => (c.field, c.typ)

/-- the first byte of the value text of a delivered column -/
def firstByte (cd : Option ColumnData) : Option UInt8 :=
  match cd with
  | some ⟨_, _, .value b⟩ => b.head?
  | _ => none

theorem tOrdersS_ok : TableOK {} tOrdersS :=
  ⟨by decide, by intro c hc; simp [tOrdersS] at hc; rcases hc with rfl | rfl <;> (unfold Props.C15.ColOK; decide),
   by decide, rfl, rfl, by decide, by decide, by decide⟩
theorem tUsersU_ok : TableOK {} tUsersU :=
  ⟨by decide, by intro c hc; simp [tUsersU] at hc; rcases hc with rfl | rfl <;> (unfold Props.C15.ColOK; decide),
   by decide, rfl, rfl, by decide, by decide, by decide⟩

set_option exponentiation.threshold 512 in
theorem cOrdersS_ok : RowsOK {} cOrdersS := by
  refine ⟨tOrdersS_ok, rfl, rfl, by decide, by decide, by decide, ?_, by decide⟩
  intro r hr
  simp only [cOrdersS, List.mem_singleton] at hr
  subst hr
  constructor <;> intro hk
  · exact absurd rfl hk
  · refine ⟨rfl, ?_⟩
    intro p hp
    simp [cOrdersS, tOrdersS, colsU, W.selectPresent] at hp
    rcases hp with hp | hp <;> subst hp <;> simp [W.CellOK, W.intTypes]

set_option exponentiation.threshold 512 in
theorem cUsersU_ok : RowsOK {} cUsersU := by
  refine ⟨tUsersU_ok, rfl, rfl, by decide, by decide, by decide, ?_, by decide⟩
  intro r hr
  simp only [cUsersU, List.mem_cons, List.not_mem_nil, or_false] at hr
  rcases hr with rfl | rfl
  · constructor <;> intro hk
    · exact absurd rfl hk
    · refine ⟨rfl, ?_⟩
      intro p hp
      simp [cUsersU, tUsersU, colsU, W.selectPresent] at hp
      rcases hp with hp | hp <;> subst hp <;> simp [W.CellOK, W.intTypes]
  · constructor <;> intro hk
    · exact absurd rfl hk
    · refine ⟨rfl, ?_⟩
      intro p hp
      simp [cUsersU, tUsersU, colsU, W.selectPresent] at hp
      rcases hp with hp | hp <;> subst hp <;> simp [W.CellOK, W.intTypes]

theorem sWF : WFHistReuse {} sHist := by
  refine ⟨?_, ⟨.inl rfl, .inl rfl, trivial⟩, by decide⟩
  intro u hu
  simp only [sHist, List.mem_cons, List.not_mem_nil, or_false] at hu
  rcases hu with rfl | rfl | rfl
  · refine ⟨by decide, ?_, trivial, by decide⟩
    intro c hc
    simp only [List.mem_singleton] at hc
    subst hc
    exact ⟨cOrdersS_ok, by decide⟩
  · show (asc "bin.000002").length < 2 ^ 31
    decide
  · refine ⟨by decide, ?_, trivial, by decide⟩
    intro c hc
    simp only [List.mem_singleton] at hc
    subst hc
    exact ⟨cUsersU_ok, by decide⟩

theorem sMapper : MapperAgrees sEnv sHist := by
  intro c hc
  simp [sHist, histRows, unitRows, changeRows] at hc
  rcases hc with rfl | rfl <;> decide

/-- `sHist` is outside the domain of the `WFHist` theorems: the two definitions of id 108 are different tables -/
theorem sHist_not_WFHist : ¬ WFHist {} sHist := fun h =>
  absurd (h.tables cOrdersS (by simp [sHist, histRows, unitRows, changeRows]) cUsersU
    (by simp [sHist, histRows, unitRows, changeRows]) rfl) (by decide)

/-! ### the concrete histories of the earlier files, each behind another table announced under its table id -/

/-- d.s (z INT), under table id `id` -/
def tOld (id : Nat) : W.TableDef :=
  { id := id, db := [100], name := [115], cols := [⟨3, 0, true⟩], names := [[122]], unsigned := [false] }
/-- INSERT INTO d.s VALUES (-7) -/
def cOld (id : Nat) : W.RowsChange :=
  { kind := .write, table := tOld id, ts := 50, flags := 1, extra := [], presentBefore := [true], presentAfter := [true],
    rows := [([], [some (.int 4 (-7))])], announce := true, tmOptional := [] }
/-- the transaction into d.s, then the master restarts -/
def pre (id : Nat) : W.History := [.tx (asc "BEGIN") [.rows (cOld id)] (.xid 3) 50, .restart (asc "bin.000002")]
/-- the mapper knows d.s (as the table with t's id) and answers with t otherwise -/
def envFor (E : Ext) (t : W.TableDef) : Env :=
  ⟨E, fun db n => if db = [100] ∧ n = [115] then some (infoOf (tOld t.id)) else some (infoOf t)⟩

theorem tOld_ok (id : Nat) (hid : id < 256 ^ 6) : TableOK {} (tOld id) :=
  ⟨by simp [tOld], by intro c hc; simp [tOld] at hc; subst hc; unfold Props.C15.ColOK; decide,
   by simp [tOld], rfl, rfl, by simp [tOld], by simp [tOld], by simpa [tOld, idw] using hid⟩

set_option exponentiation.threshold 512 in
theorem cOld_ok (id : Nat) (hid : id < 256 ^ 6) : RowsOK {} (cOld id) := by
  refine ⟨tOld_ok id hid, rfl, rfl, by simp [cOld], by simp [cOld], by simp [cOld], ?_, ?_⟩
  · intro r hr
    simp only [cOld, List.mem_singleton] at hr
    subst hr
    constructor <;> intro hk
    · exact absurd rfl hk
    · refine ⟨rfl, ?_⟩
      intro p hp
      simp [cOld, tOld, colsU, W.selectPresent] at hp
      subst hp
      simp [W.CellOK, W.intTypes]
  · intro r hr
    simp only [cOld, List.mem_singleton] at hr
    subst hr
    simp only [cOld, tOld, colsU, ne_eq, not_true_eq_false, reduceCtorEq, not_false_eq_true, ↓reduceIte,
      List.nil_append]
    decide

theorem pre_units (id : Nat) (hid : id < 256 ^ 6) (h : W.History) (hu : ∀ u ∈ h, UnitOK {} u) :
    ∀ u ∈ pre id ++ h, UnitOK {} u := by
  intro u hm
  simp only [pre, List.cons_append, List.nil_append, List.mem_cons] at hm
  rcases hm with rfl | rfl | hm
  · refine ⟨by decide, ?_, trivial, by decide⟩
    intro c hc
    simp only [List.mem_singleton] at hc
    subst hc
    exact ⟨cOld_ok id hid, by simp [cOld]⟩
  · show (asc "bin.000002").length < 2 ^ 31
    decide
  · exact hu u hm

/-- d.s under id 9, restart, then `rHist` (GV/Lemmas/C13b.lean): d.t (INT UNSIGNED, INT, VARCHAR(300), DECIMAL(5,2),
    DATETIME(3)) under id 9 — an UPDATE with a partial before image, then a WRITE that is not announced again -/
def rHistR : W.History := pre 9 ++ rHist
def rEnvR : Env := envFor rEnv.ext rT
/-- d.s under id 11, restart, then `qHist` (GV/Lemmas/C10b.lean): d.q (YEAR, BIT, ENUM, SET, FLOAT, DOUBLE, …) under id 11 -/
def qHistR : W.History := pre 11 ++ C10b.qHist
def qEnvR : Env := envFor C10b.qEnv.ext C10b.qT
/-- d.s under id 12, restart, then `tHist` (GV/Lemmas/C12b.lean): d.t (the temporal types) under id 12 -/
def tHistR : W.History := pre 12 ++ C12b.tHist
def tEnvR : Env := envFor C12b.tEnv.ext C12b.tT
/-- d.s under id 12, restart, then `jHist` (GV/Lemmas/C14b.lean): d.j (INT, JSON) under id 12 -/
def jHistR : W.History := pre 12 ++ C14b.jHist
def jEnvR : Env := envFor C14b.jEnv.ext C14b.jT

theorem rWFR : WFHistReuse {} rHistR := by
  refine ⟨pre_units 9 (by decide) rHist rWF.units, ⟨.inl rfl, .inl rfl, .inr (by decide), trivial⟩, by decide⟩

theorem rMapperR : MapperAgrees rEnvR rHistR := by
  intro c hc
  simp [rHistR, pre, rHist, histRows, unitRows, changeRows] at hc
  rcases hc with rfl | rfl | rfl <;> decide

theorem qWFR : WFHistReuse {} qHistR := by
  refine ⟨pre_units 11 (by decide) C10b.qHist C10b.qWF.units, ⟨.inl rfl, .inl rfl, trivial⟩, by decide⟩

theorem qMapperR : MapperAgrees qEnvR qHistR := by
  intro c hc
  simp [qHistR, pre, C10b.qHist, histRows, unitRows, changeRows] at hc
  rcases hc with rfl | rfl <;> decide

theorem tWFR : WFHistReuse {} tHistR := by
  refine ⟨pre_units 12 (by decide) C12b.tHist C12b.tWF.units, ⟨.inl rfl, .inl rfl, trivial⟩, by decide⟩

theorem tMapperR : MapperAgrees tEnvR tHistR := by
  intro c hc
  simp [tHistR, pre, C12b.tHist, histRows, unitRows, changeRows] at hc
  rcases hc with rfl | rfl <;> decide

theorem jWFR : WFHistReuse {} jHistR := by
  refine ⟨pre_units 12 (by decide) C14b.jHist C14b.jWF.units, ⟨.inl rfl, .inl rfl, .inl rfl, trivial⟩, ?_⟩
  simp only [jHistR, pre, C14b.jHist, C14b.jC2, C14b.jC1, C14b.cell1, C14b.cell2, C14b.cell3, C14b.cell4,
    List.cons_append, List.nil_append]
  set_option maxRecDepth 100000 in decide

theorem jMapperR : MapperAgrees jEnvR jHistR := by
  intro c hc
  simp [jHistR, pre, C14b.jHist, histRows, unitRows, changeRows] at hc
  rcases hc with rfl | rfl | rfl <;> rfl

end C13c
end GV
