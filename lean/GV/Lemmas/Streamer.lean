import GV.Spec.Decoded
/- helper lemmas for GV/Props/C02.lean, C03.lean, C04.lean -/
namespace GV

namespace SL
open GV.M GV.DSpec

/-! ### small generic facts -/

theorem filterMap_cons_toList {α β} (f : α → Option β) (a : α) (l : List α) :
    (a :: l).filterMap f = (f a).toList ++ l.filterMap f := by
  cases h : f a <;> simp [h]

/-- inside an open transaction: events accumulated so far, autocommit off -/
def InTx (st : PState) (acc : List StreamEvent) : Prop := st.tran = some acc ∧ st.autocommit = false

/-- the categories of changes are distinct from the three boundary categories -/
theorem cat_ne_begin {cat : Nat} (h : isBoundaryDDL cat = true ∨ isDML cat = true) :
    cat ≠ Facts.StatementBegin := by
  rintro rfl; revert h; decide

theorem cat_ne_commit {cat : Nat} (h : isBoundaryDDL cat = true ∨ isDML cat = true) :
    cat ≠ Facts.StatementCommit := by
  rintro rfl; revert h; decide

theorem cat_ne_rollback {cat : Nat} (h : isBoundaryDDL cat = true ∨ isDML cat = true) :
    cat ≠ Facts.StatementRollback := by
  rintro rfl; revert h; decide

/-! ### runD unfolding -/

theorem runD_cont {h : Transaction → Bool} {st st' : PState} {d : Decoded} (hs : stepD st d = .cont st')
    (rest : List (Option Decoded)) : runD h st (some d :: rest) = runD h st' rest := by
  simp only [runD, hs]

theorem runD_deliver {h : Transaction → Bool} {st acc : PState} {d : Decoded} {tx : Transaction}
    (hs : stepD st d = .deliver tx acc) (rest : List (Option Decoded)) :
    runD h st (some d :: rest) =
      if h tx then
        { runD h acc rest with calls := tx :: (runD h acc rest).calls, accepted := tx :: (runD h acc rest).accepted }
      else ⟨[tx], [], st.pos, true, false⟩ := by
  simp only [runD, hs]

/-- a tail after which nothing more is delivered and the position is kept -/
def Quiet (h : Transaction → Bool) (tail : List (Option Decoded)) : Prop :=
  ∀ st : PState, ∃ e, runD h st tail = ⟨[], [], st.pos, e, false⟩

theorem quiet_nil (h : Transaction → Bool) : Quiet h [] := fun _ => ⟨false, by simp [runD]⟩

theorem quiet_stopper (h : Transaction → Bool) {d : Option Decoded} (hd : Stopper d) : Quiet h [d] := by
  intro st
  rcases hd with rfl | rfl | rfl
  · exact ⟨false, by simp [runD]⟩
  · exact ⟨true, by simp [runD, stepD]⟩
  · exact ⟨true, by simp [runD, stepD]⟩

/-! ### steps inside a transaction -/

theorem step_change_inTx {st : PState} {acc : List StreamEvent} (hi : InTx st acc) {c : DChange} (hwf : WFChange c) :
    ∃ st', stepD st (decChange c) = .cont st' ∧ st'.pos = st.pos ∧ InTx st' (acc ++ (seOf c).toList) := by
  obtain ⟨ht, ha⟩ := hi
  cases c with
  | rows se n t =>
    exact ⟨{ st with tran := appendEv st.tran se }, by simp [decChange, stepD, ha], rfl,
      by simp [InTx, appendEv, ht, ha, seOf]⟩
  | stmt cat q n t =>
    have hb := cat_ne_begin hwf
    simp only [WFChange] at hwf
    refine ⟨{ st with tran := appendEv st.tran (stmtEvent cat q t) }, ?_, rfl, ?_⟩
    · simp [decChange, stepD, hb, hwf, ha, stmtEvent]
    · simp [InTx, appendEv, ht, ha, seOf]
  | noise => exact ⟨st, by simp [decChange, stepD], rfl, by simp [seOf, InTx, ht, ha]⟩
  | unknownStmt cat q n t =>
    obtain ⟨h1, h2, h3, h4, h5⟩ := hwf
    exact ⟨st, by simp [decChange, stepD, h1, h2, h3, h4, h5], rfl, by simp [seOf, InTx, ht, ha]⟩

/-- the closing event of a transaction unit -/
def closerDec (close : DCloser) (next ts : Nat) : Decoded :=
  match close with
  | .xid => .xid next ts
  | .commit q => .stmt Facts.StatementCommit q next ts
  | .rollback q => .stmt Facts.StatementRollback q next ts

/-- what a closed transaction delivers, given the accumulated events -/
def closeEvents (close : DCloser) (acc : List StreamEvent) : List StreamEvent :=
  match close with
  | .rollback _ => []
  | _ => acc

theorem dexpected_tx (p : Position) (bq : Query) (bn bt : Nat) (cs : List DChange) (close : DCloser) (next ts : Nat)
    (us : List DUnit) :
    dexpected p (.tx bq bn bt cs close next ts :: us)
      = ⟨p, { p with offset := next }, ts, closeEvents close (cs.filterMap seOf)⟩
          :: dexpected { p with offset := next } us := by
  cases close <;> rfl

theorem devs_tx (bq : Query) (bn bt : Nat) (cs : List DChange) (close : DCloser) (next ts : Nat) :
    devs (.tx bq bn bt cs close next ts)
      = .stmt Facts.StatementBegin bq bn bt :: (cs.map decChange ++ [closerDec close next ts]) := by
  cases close <;> rfl

theorem step_closer {st : PState} {acc : List StreamEvent} (hi : InTx st acc) (close : DCloser) (next ts : Nat) :
    stepD st (closerDec close next ts) =
      .deliver ⟨st.pos, { st.pos with offset := next }, ts, closeEvents close acc⟩
        { st with pos := { st.pos with offset := next }, tran := none, autocommit := true } := by
  obtain ⟨ht, ha⟩ := hi
  cases close <;>
    simp [closeEvents, closerDec, stepD, commitStep, ht, isBoundaryDDL, isDML, Facts.StatementBegin, Facts.StatementCommit,
      Facts.StatementRollback, Facts.StatementInsert, Facts.StatementUpdate, Facts.StatementDelete,
      Facts.StatementCreate, Facts.StatementAlter, Facts.StatementDrop, Facts.StatementTruncate,
      Facts.StatementRename, Facts.StatementSet]

theorem step_begin {st : PState} (bq : Query) (bn bt : Nat) :
    stepD st (.stmt Facts.StatementBegin bq bn bt) = .cont { st with tran := some [], autocommit := false } := by
  simp [stepD]

/-- walking through all the changes of a transaction: no delivery, position kept, events accumulated -/
theorem run_changes (h : Transaction → Bool) : ∀ (cs : List DChange), (∀ c ∈ cs, WFChange c) →
    ∀ (st : PState) (acc : List StreamEvent), InTx st acc →
    ∃ st', InTx st' (acc ++ cs.filterMap seOf) ∧ st'.pos = st.pos ∧
      ∀ rest, runD h st ((cs.map decChange).map some ++ rest) = runD h st' rest
  | [], _, st, acc, hi => ⟨st, by simpa using hi, rfl, fun rest => by simp⟩
  | c :: cs, hwf, st, acc, hi => by
    obtain ⟨st1, hs, hp, hi1⟩ := step_change_inTx hi (hwf c (by simp))
    obtain ⟨st2, hi2, hp2, hr⟩ := run_changes h cs (fun c hc => hwf c (by simp [hc])) st1 _ hi1
    refine ⟨st2, ?_, hp2.trans hp, fun rest => ?_⟩
    · simpa [filterMap_cons_toList, List.append_assoc] using hi2
    · simp only [List.map_cons, List.cons_append]
      rw [runD_cont hs]
      exact hr rest

/-- a prefix of the changes of a transaction followed by a quiet tail: nothing delivered, position kept -/
theorem run_changes_partial (h : Transaction → Bool) (tail : List (Option Decoded)) (hq : Quiet h tail) :
    ∀ (cs : List DChange), (∀ c ∈ cs, WFChange c) → ∀ (part : List Decoded), part <+: cs.map decChange →
    ∀ (st : PState) (acc : List StreamEvent), InTx st acc →
    ∃ e, runD h st (part.map some ++ tail) = ⟨[], [], st.pos, e, false⟩
  | _, _, [], _, st, _, _ => by simpa using hq st
  | [], _, d :: part, hp, _, _, _ => by simp at hp
  | c :: cs, hwf, d :: part, hp, st, acc, hi => by
    simp only [List.map_cons, List.cons_prefix_cons] at hp
    obtain ⟨rfl, hp⟩ := hp
    obtain ⟨st1, hs, hpos, hi1⟩ := step_change_inTx hi (hwf c (by simp))
    obtain ⟨e, he⟩ := run_changes_partial h tail hq cs (fun c hc => hwf c (by simp [hc])) part hp st1 _ hi1
    refine ⟨e, ?_⟩
    simp only [List.map_cons, List.cons_append]
    rw [runD_cont hs, he, hpos]

/-! ### the spec functions on one unit / concatenations -/

theorem dexpected_append (p : Position) (us1 us2 : List DUnit) :
    dexpected p (us1 ++ us2) = dexpected p us1 ++ dexpected (dendPos p us1) us2 ∧
    dendPos p (us1 ++ us2) = dendPos (dendPos p us1) us2 := by
  induction us1 generalizing p with
  | nil => simp [dexpected, dendPos]
  | cons u us1 ih =>
    cases u with
    | single c =>
      simp only [List.cons_append, dexpected, dendPos]
      split <;> simp [ih]
    | _ => simp [dexpected, dendPos, ih]

theorem dexpected_cons (p : Position) (u : DUnit) (us : List DUnit) :
    dexpected p (u :: us) = dexpected p [u] ++ dexpected (dendPos p [u]) us :=
  (dexpected_append p [u] us).1

theorem dendPos_cons (p : Position) (u : DUnit) (us : List DUnit) :
    dendPos p (u :: us) = dendPos (dendPos p [u]) us :=
  (dexpected_append p [u] us).2

/-! ### one whole unit -/

/-- running a whole unit from an idle state with any handler: either nothing is delivered and the parser is idle
    again, or exactly the expected transaction is offered to the handler -/
theorem unit_run (h : Transaction → Bool) {st : PState} (hi : Idle st) {u : DUnit} (hwf : WFUnit u) :
    ∃ st', Idle st' ∧ st'.pos = dendPos st.pos [u] ∧
      ((dexpected st.pos [u] = [] ∧ ∀ rest, runD h st ((devs u).map some ++ rest) = runD h st' rest) ∨
       (∃ tx, dexpected st.pos [u] = [tx] ∧ ∀ rest, runD h st ((devs u).map some ++ rest) =
          if h tx then
            { runD h st' rest with calls := tx :: (runD h st' rest).calls,
                                   accepted := tx :: (runD h st' rest).accepted }
          else ⟨[tx], [], st.pos, true, false⟩)) := by
  obtain ⟨ht, ha⟩ := hi
  cases u with
  | tx bq bn bt cs close next ts =>
    have hi0 : InTx { st with tran := some [], autocommit := false } [] := ⟨rfl, rfl⟩
    obtain ⟨st1, hi1, hp1, hr1⟩ := run_changes h cs hwf _ _ hi0
    have hc := step_closer hi1 close next ts
    refine ⟨{ st1 with pos := { st1.pos with offset := next }, tran := none, autocommit := true }, ⟨rfl, rfl⟩, ?_,
      Or.inr ⟨⟨st.pos, { st.pos with offset := next }, ts,
        closeEvents close (cs.filterMap seOf)⟩, ?_, fun rest => ?_⟩⟩
    · simp [dendPos, hp1]
    · rw [dexpected_tx]; simp [dexpected]
    · rw [devs_tx]
      simp only [List.map_cons, List.map_append, List.cons_append, List.append_assoc]
      rw [runD_cont (step_begin bq bn bt), hr1, runD_deliver hc]
      simp [hp1]
  | single c =>
    cases c with
    | rows se n t =>
      refine ⟨{ st with pos := { st.pos with offset := n }, tran := none, autocommit := true }, ⟨rfl, rfl⟩,
        by simp [dendPos, changeNextTs, seOf], Or.inr ⟨⟨st.pos, { st.pos with offset := n }, t, [se]⟩,
          by simp [dexpected, changeNextTs, seOf], fun rest => ?_⟩⟩
      have hs : stepD st (.rows se n t) = .deliver ⟨st.pos, { st.pos with offset := n }, t, [se]⟩
          { st with pos := { st.pos with offset := n }, tran := none, autocommit := true } := by
        simp [stepD, commitStep, ha, ht, appendEv]
      simp only [devs, decChange, List.map_cons, List.map_nil, List.cons_append, List.nil_append]
      rw [runD_deliver hs]
    | stmt cat q n t =>
      have hb := cat_ne_begin hwf
      simp only [WFUnit, WFChange] at hwf
      refine ⟨{ st with pos := { st.pos with offset := n }, tran := none, autocommit := true }, ⟨rfl, rfl⟩,
        by simp [dendPos, changeNextTs, seOf], Or.inr ⟨⟨st.pos, { st.pos with offset := n }, t, [stmtEvent cat q t]⟩,
          by simp [dexpected, changeNextTs, seOf], fun rest => ?_⟩⟩
      have hs : stepD st (.stmt cat q n t) = .deliver ⟨st.pos, { st.pos with offset := n }, t, [stmtEvent cat q t]⟩
          { st with pos := { st.pos with offset := n }, tran := none, autocommit := true } := by
        simp [stepD, commitStep, ha, ht, appendEv, hb, hwf, stmtEvent]
      simp only [devs, decChange, List.map_cons, List.map_nil, List.cons_append, List.nil_append]
      rw [runD_deliver hs]
    | noise =>
      refine ⟨st, ⟨ht, ha⟩, by simp [dendPos, changeNextTs], Or.inl ⟨by simp [dexpected, changeNextTs], fun rest => ?_⟩⟩
      simp only [devs, decChange, List.map_cons, List.map_nil, List.cons_append, List.nil_append]
      rw [runD_cont (st' := st) (by simp [stepD])]
    | unknownStmt cat q n t =>
      obtain ⟨h1, h2, h3, h4, h5⟩ := hwf
      refine ⟨st, ⟨ht, ha⟩, by simp [dendPos, changeNextTs], Or.inl ⟨by simp [dexpected, changeNextTs], fun rest => ?_⟩⟩
      simp only [devs, decChange, List.map_cons, List.map_nil, List.cons_append, List.nil_append]
      rw [runD_cont (st' := st) (by simp [stepD, h1, h2, h3, h4, h5])]
  | rotate f o =>
    refine ⟨{ st with pos := ⟨f, o⟩ }, ⟨ht, ha⟩, by simp [dendPos], Or.inl ⟨by simp [dexpected], fun rest => ?_⟩⟩
    simp only [devs, List.map_cons, List.map_nil, List.cons_append, List.nil_append]
    rw [runD_cont (st' := { st with pos := ⟨f, o⟩ }) (by simp [stepD])]
  | skip =>
    refine ⟨st, ⟨ht, ha⟩, by simp [dendPos], Or.inl ⟨by simp [dexpected], fun rest => ?_⟩⟩
    simp only [devs, List.map_cons, List.map_nil, List.cons_append, List.nil_append]
    rw [runD_cont (st' := st) (by simp [stepD])]
  | tableMap id tc known =>
    cases known with
    | true =>
      refine ⟨{ st with tables := st.tables.map fun p => if p.1 == id then (p.1, tc) else p }, ⟨ht, ha⟩,
        by simp [dendPos], Or.inl ⟨by simp [dexpected], fun rest => ?_⟩⟩
      simp only [devs, List.map_cons, List.map_nil, List.cons_append, List.nil_append]
      rw [runD_cont (st' := { st with tables := st.tables.map fun p => if p.1 == id then (p.1, tc) else p })
        (by simp [stepD])]
    | false =>
      by_cases hc : (findTable st.tables id).isSome = true
      · refine ⟨{ st with tables := st.tables.map fun p => if p.1 == id then (p.1, tc) else p }, ⟨ht, ha⟩,
          by simp [dendPos], Or.inl ⟨by simp [dexpected], fun rest => ?_⟩⟩
        simp only [devs, List.map_cons, List.map_nil, List.cons_append, List.nil_append]
        rw [runD_cont (st' := { st with tables := st.tables.map fun p => if p.1 == id then (p.1, tc) else p })
          (by simp [stepD, hc])]
      · refine ⟨{ st with tables := st.tables ++ [(id, tc)] }, ⟨ht, ha⟩,
          by simp [dendPos], Or.inl ⟨by simp [dexpected], fun rest => ?_⟩⟩
        simp only [devs, List.map_cons, List.map_nil, List.cons_append, List.nil_append]
        rw [runD_cont (st' := { st with tables := st.tables ++ [(id, tc)] }) (by simp [stepD, hc])]
  | format f =>
    refine ⟨{ st with format := f }, ⟨ht, ha⟩, by simp [dendPos], Or.inl ⟨by simp [dexpected], fun rest => ?_⟩⟩
    simp only [devs, List.map_cons, List.map_nil, List.cons_append, List.nil_append]
    rw [runD_cont (st' := { st with format := f }) (by simp [stepD])]

theorem devs_shape (u : DUnit) :
    (∃ x, devs u = [x]) ∨ ∃ bq bn bt cs close next ts, u = .tx bq bn bt cs close next ts := by
  cases u <;> simp [devs]

/-- a strict prefix of a unit followed by a quiet tail: nothing delivered, position kept -/
theorem unit_partial (h : Transaction → Bool) (tail : List (Option Decoded)) (hq : Quiet h tail) {st : PState}
    (_hi : Idle st) {u : DUnit} (hwf : WFUnit u) {part : List Decoded} (hp : part <+: devs u) (hne : part ≠ devs u) :
    ∃ e, runD h st (part.map some ++ tail) = ⟨[], [], st.pos, e, false⟩ := by
  cases part with
  | nil => simpa using hq st
  | cons d part =>
    rcases devs_shape u with ⟨x, hx⟩ | ⟨bq, bn, bt, cs, close, next, ts, rfl⟩
    · rw [hx] at hp hne
      simp only [List.cons_prefix_cons, List.prefix_nil] at hp
      obtain ⟨rfl, rfl⟩ := hp
      exact absurd rfl hne
    · rw [devs_tx] at hp hne
      simp only [List.cons_prefix_cons] at hp
      obtain ⟨rfl, hp⟩ := hp
      rw [List.prefix_concat_iff] at hp
      rcases hp with rfl | hp
      · exact absurd rfl hne
      · have hi0 : InTx { st with tran := some [], autocommit := false } [] := ⟨rfl, rfl⟩
        obtain ⟨e, he⟩ := run_changes_partial h tail hq cs hwf part hp _ _ hi0
        refine ⟨e, ?_⟩
        simp only [List.map_cons, List.cons_append]
        rw [runD_cont (step_begin bq bn bt), he]

/-! ### the master lemma: any handler, any prefix of the event sequence, any quiet ending -/

theorem run_prefix (h : Transaction → Bool) (tail : List (Option Decoded)) (hq : Quiet h tail) :
    ∀ (us : List DUnit), (∀ u ∈ us, WFUnit u) → ∀ (st : PState), Idle st →
    ∀ (evs : List Decoded), evs <+: us.flatMap devs →
    ∃ us1 us2, us = us1 ++ us2 ∧
      (runD h st (evs.map some ++ tail)).accepted = dexpected st.pos us1 ∧
      (runD h st (evs.map some ++ tail)).pos = dendPos st.pos us1 ∧
      (runD h st (evs.map some ++ tail)).crash = false ∧
      (((runD h st (evs.map some ++ tail)).calls = (runD h st (evs.map some ++ tail)).accepted ∧
          ∃ part, evs = us1.flatMap devs ++ part ∧
            (part = [] ∨ ∃ u us3, us2 = u :: us3 ∧ part <+: devs u ∧ part ≠ devs u)) ∨
       (∃ tx, (runD h st (evs.map some ++ tail)).calls = (runD h st (evs.map some ++ tail)).accepted ++ [tx] ∧
          h tx = false ∧ (dexpected (dendPos st.pos us1) us2).head? = some tx))
  | [], _, st, _, evs, hp => by
    simp only [List.flatMap_nil, List.prefix_nil] at hp
    subst hp
    obtain ⟨e, he⟩ := hq st
    refine ⟨[], [], rfl, ?_⟩
    simp [he, dexpected, dendPos]
  | u :: us, hwf, st, hi, evs, hp => by
    have hwu : WFUnit u := hwf u (by simp)
    have hwus : ∀ u ∈ us, WFUnit u := fun u hu => hwf u (by simp [hu])
    simp only [List.flatMap_cons] at hp
    by_cases hdu : devs u <+: evs
    · obtain ⟨evs', rfl⟩ := hdu
      have hp' : evs' <+: us.flatMap devs := (List.prefix_append_right_inj _).1 hp
      obtain ⟨st', hi', hpos', hrun⟩ := unit_run h hi hwu
      obtain ⟨us1, us2, hsplit, hacc, hpos, hcr, hcalls⟩ := run_prefix h tail hq us hwus st' hi' evs' hp'
      rw [hpos'] at hacc hpos hcalls
      rcases hrun with ⟨hd, hrun⟩ | ⟨tx, hd, hrun⟩
      · refine ⟨u :: us1, us2, by simp [hsplit], ?_⟩
        simp only [List.map_append, List.append_assoc]
        rw [hrun, dexpected_cons st.pos u us1, dendPos_cons st.pos u us1, hd]
        refine ⟨by simpa using hacc, hpos, hcr, ?_⟩
        rcases hcalls with ⟨hc, part, hev, hpart⟩ | ⟨tx, hc, hh, hhd⟩
        · exact Or.inl ⟨hc, part, by simp [hev], hpart⟩
        · exact Or.inr ⟨tx, hc, hh, hhd⟩
      · cases hh : h tx with
        | true =>
          refine ⟨u :: us1, us2, by simp [hsplit], ?_⟩
          simp only [List.map_append, List.append_assoc]
          rw [hrun, dexpected_cons st.pos u us1, dendPos_cons st.pos u us1, hd]
          simp only [hh, if_true]
          refine ⟨by simp [hacc], hpos, hcr, ?_⟩
          rcases hcalls with ⟨hc, part, hev, hpart⟩ | ⟨tx2, hc, hh2, hhd⟩
          · exact Or.inl ⟨by simp [hc], part, by simp [hev], hpart⟩
          · exact Or.inr ⟨tx2, by simp [hc], hh2, hhd⟩
        | false =>
          refine ⟨[], u :: us, rfl, ?_⟩
          simp only [List.map_append, List.append_assoc]
          rw [hrun]
          simp only [hh]
          refine ⟨by simp [dexpected], by simp [dendPos], by simp, Or.inr ⟨tx, by simp, hh, ?_⟩⟩
          simp [dendPos, dexpected_cons st.pos u us, hd]
    · have hpu : evs <+: devs u := by
        rcases List.prefix_or_prefix_of_prefix hp (List.prefix_append _ _) with h1 | h1
        · exact h1
        · exact absurd h1 hdu
      have hne : evs ≠ devs u := fun he => hdu (he ▸ List.prefix_refl _)
      obtain ⟨e, he⟩ := unit_partial h tail hq hi hwu hpu hne
      refine ⟨[], u :: us, rfl, ?_⟩
      rw [he]
      refine ⟨by simp [dexpected], by simp [dendPos], rfl, Or.inl ⟨rfl, evs, by simp, Or.inr ⟨u, us, rfl, hpu, hne⟩⟩⟩

/-! ### the accepting handler over whole units -/

theorem run_all (us : List DUnit) : ∀ (st : PState), Idle st → (∀ u ∈ us, WFUnit u) →
    runD (fun _ => true) st ((us.flatMap devs).map some)
      = ⟨dexpected st.pos us, dexpected st.pos us, dendPos st.pos us, false, false⟩ := by
  induction us with
  | nil => intro st _ _; simp [runD, dexpected, dendPos]
  | cons u us ih =>
    intro st hi hwf
    obtain ⟨st', hi', hpos', hrun⟩ := unit_run (fun _ => true) hi (hwf u (by simp))
    have ih' := ih st' hi' (fun u hu => hwf u (by simp [hu]))
    simp only [List.flatMap_cons, List.map_append]
    rw [dexpected_cons st.pos u us, dendPos_cons st.pos u us]
    rcases hrun with ⟨hd, hrun⟩ | ⟨tx, hd, hrun⟩
    · rw [hrun, ih', hd, hpos']; simp
    · rw [hrun, ih', hd, hpos']; simp

end SL

end GV
