import GV.Lemmas.C01d
/-
  Definitions and helper lemmas for GV/Props/C04b.lean (C04 at the byte level: what an attempt of the streamer keeps,
  whatever handler, cut and ending, against the bytes the Spec master serves).
  The first section holds the definitions the property statements are made of.
-/
namespace GV
namespace C04b
open Bytes M GV.Props.C01 GV.Props.C01b GV.C01c GV.C01d

/-! ### the statements' vocabulary -/

/-- the laid-out events the Spec master serves for p (after the artificial ROTATE / FORMAT_DESCRIPTION preamble) -/
def served (cfg : W.Cfg) (h : W.History) (p : W.Pos) : List W.Laid := W.fromPos (W.layout cfg h) p

/-- the number of packets the master sends before the first laid-out event: the artificial ROTATE, and an artificial
    FORMAT_DESCRIPTION event unless p is the head of a file (whose own FORMAT_DESCRIPTION event is a laid-out event) -/
def preamble (cfg : W.Cfg) (h : W.History) (p : W.Pos) : Nat := (W.serve cfg h p).length - (served cfg h p).length

/-- SPEC side of an attempt: what a replica whose handler is `acc`, started at `cur`, must report after exactly the
    laid-out events `l` arrived and the attempt then ended quietly with error flag `e`.  Written from the tags alone. -/
def specOut (E : Ext) (acc : Transaction → Bool) (e : Bool) : List W.Laid → W.Pos → Outcome
  | [], cur => ⟨[], [], posOf cur, e, false⟩
  | x :: xs, cur =>
    match x.tag with
    | .commit cs =>
      if acc (toTx E ⟨cur, ⟨x.file, x.next⟩, x.ts, cs⟩) then
        { specOut E acc e xs ⟨x.file, x.next⟩ with
          calls := toTx E ⟨cur, ⟨x.file, x.next⟩, x.ts, cs⟩ :: (specOut E acc e xs ⟨x.file, x.next⟩).calls,
          accepted := toTx E ⟨cur, ⟨x.file, x.next⟩, x.ts, cs⟩ :: (specOut E acc e xs ⟨x.file, x.next⟩).accepted }
      else ⟨[toTx E ⟨cur, ⟨x.file, x.next⟩, x.ts, cs⟩], [], posOf cur, true, false⟩
    | .rotateTo f => specOut E acc e xs ⟨f, 4⟩
    | _ => specOut E acc e xs cur

/-- a way an attempt ends: from whatever state, with whatever handler, the parser fed `tail` returns at once, without a
    handler call, keeping its position, with error flag `e` and without crash.  Instances below: the input is exhausted
    / the channel closed / the context cancelled (e = false), a packet that is not a valid event, or any packet on which
    the parser stops in every state (e = true) -/
def EndsWith (env : Env) (e : Bool) (tail : List Input) : Prop :=
  ∀ (acc : Transaction → Bool) (st : PState), parseEvents env acc st tail = ⟨[], [], st.pos, e, false⟩

theorem endsWith_nil (env : Env) : EndsWith env false [] := fun _ _ => rfl
theorem endsWith_closed (env : Env) (r : List Input) : EndsWith env false (.closed :: r) := fun _ _ => rfl
theorem endsWith_cancelled (env : Env) (r : List Input) : EndsWith env false (.cancelled :: r) := fun _ _ => rfl

/-- a packet on which the parser stops without crash in every state (master error packet, undecodable event, …) -/
theorem endsWith_stop (env : Env) (e : Bool) (b : Bytes) (r : List Input)
    (hb : ∀ st, stepEvent env st b = .stop e false) : EndsWith env e (.event b :: r) := by
  intro acc st
  simp only [parseEvents, hb st]

/-- a packet that is not a valid event (the model's invalid-event path) -/
theorem endsWith_invalid (env : Env) (b : Bytes) (r : List Input) (hb : isValid b = false) :
    EndsWith env true (.event b :: r) := by
  apply endsWith_stop
  intro st
  simp [stepEvent, classify, hb, stepD]

/-- every rows change is announced (TABLE_MAP event) within its own unit — what real masters guarantee: a transaction
    carries the table maps of its rows events -/
def SelfAnnounced (h : W.History) : Prop := ∀ u ∈ h, annOK [] (unitRows u)

/-- no file name of the log is used twice (the Spec master finds a position by file name) -/
def FreshLog (h : W.History) : Prop := ∀ f, (logFiles h).count f ≤ 1

theorem freshLog_of_nodup {h : W.History} (hn : (logFiles h).Nodup) : FreshLog h := by
  intro f
  exact List.nodup_iff_count.mp hn f

/-- what is asked of a start position: the C01d hypotheses, with the announcements asked per unit and the file names
    asked to be fresh for the whole log — so that they carry over to every position an attempt can keep -/
structure Resumable (cfg : W.Cfg) (env : Env) (h : W.History) (p : W.Pos) : Prop where
  lands : Lands cfg h p
  wf : WFFrom cfg h p
  selfAnn : SelfAnnounced (unitsFrom cfg h p)
  fresh : FreshLog h
  mapper : MapperAgrees env (unitsFrom cfg h p)

/-- one attempt: a handler (arbitrary predicate: it may reject any call), how many of the served packets arrive, and
    what the reader hands over afterwards -/
structure Attempt where
  handler : Transaction → Bool
  cut : Nat
  tail : List Input

/-- the attempt of a streamer whose stored position is p against the Spec master -/
def runAttempt (cfg : W.Cfg) (env : Env) (h : W.History) (a : Attempt) (p : W.Pos) : Outcome :=
  parseEvents env a.handler (PState.init (posOf p)) (((W.serve cfg h p).take a.cut).map Input.event ++ a.tail)

/-- the clean complete attempt: everything served arrives, everything is accepted -/
def runClean (cfg : W.Cfg) (env : Env) (h : W.History) (p : W.Pos) : Outcome :=
  parseEvents env (fun _ => true) (PState.init (posOf p)) ((W.serve cfg h p).map Input.event ++ [Input.closed])

/-- a sequence of attempts on one streamer: each starts at the position the previous one kept -/
inductive Attempts (cfg : W.Cfg) (env : Env) (h : W.History) : W.Pos → List Attempt → List Transaction → W.Pos → Prop where
  | nil (p : W.Pos) : Attempts cfg env h p [] [] p
  | cons (a : Attempt) (p q : W.Pos) (rest : List Attempt) (acc : List Transaction) (p' : W.Pos)
      (hq : (runAttempt cfg env h a p).pos = posOf q)
      (htail : Attempts cfg env h q rest acc p') :
      Attempts cfg env h p (a :: rest) ((runAttempt cfg env h a p).accepted ++ acc) p'

theorem posOf_inj {p q : W.Pos} (h : posOf p = posOf q) : p = q := by
  cases p; cases q
  simp only [posOf, Position.mk.injEq, Int.natCast_inj] at h
  simp [h.1, h.2]

/-! ### Spec-side list lemmas -/

theorem expectedAux_append : ∀ (a b : List W.Laid) (cur : W.Pos),
    W.expectedAux (a ++ b) cur = W.expectedAux a cur ++ W.expectedAux b (W.endPosAux a cur)
  | [], b, cur => by simp [W.expectedAux, W.endPosAux]
  | x :: a, b, cur => by
    rw [List.cons_append]
    cases hx : x.tag <;> simp only [W.expectedAux, W.endPosAux, hx, List.cons_append] <;> rw [expectedAux_append a b]

theorem endPosAux_append : ∀ (a b : List W.Laid) (cur : W.Pos),
    W.endPosAux (a ++ b) cur = W.endPosAux b (W.endPosAux a cur)
  | [], b, cur => by simp [W.endPosAux]
  | x :: a, b, cur => by
    rw [List.cons_append]
    cases hx : x.tag <;> simp only [W.endPosAux, hx] <;> rw [endPosAux_append a b]

/-- the transactions of a consumed prefix are a prefix of the expected transactions -/
theorem expectedAux_take (l : List W.Laid) (m : Nat) (cur : W.Pos) :
    W.expectedAux (l.take m) cur = (W.expectedAux l cur).take (W.expectedAux (l.take m) cur).length ∧
    W.expectedAux (l.drop m) (W.endPosAux (l.take m) cur)
      = (W.expectedAux l cur).drop (W.expectedAux (l.take m) cur).length ∧
    W.endPosAux (l.drop m) (W.endPosAux (l.take m) cur) = W.endPosAux l cur := by
  have h1 := expectedAux_append (l.take m) (l.drop m) cur
  have h2 := endPosAux_append (l.take m) (l.drop m) cur
  rw [List.take_append_drop] at h1 h2
  refine ⟨?_, ?_, h2.symm⟩
  · rw [h1, List.take_left']
    rfl
  · rw [h1, List.drop_left']
    rfl

/-- what `specOut` says, in terms of the expected transactions: a prefix of the events was consumed without failure;
    either it is everything that arrived, or the next event is a commit point whose transaction was rejected -/
theorem specOut_spec (E : Ext) (acc : Transaction → Bool) (e : Bool) : ∀ (l : List W.Laid) (cur : W.Pos),
    ∃ m, m ≤ l.length ∧
      (specOut E acc e l cur).accepted = (W.expectedAux (l.take m) cur).map (toTx E) ∧
      (specOut E acc e l cur).pos = posOf (W.endPosAux (l.take m) cur) ∧
      (specOut E acc e l cur).crash = false ∧
      (((specOut E acc e l cur).calls = (specOut E acc e l cur).accepted ∧ (specOut E acc e l cur).err = e ∧
          m = l.length) ∨
       (∃ x rest cs, l.drop m = x :: rest ∧ x.tag = .commit cs ∧
          acc (toTx E ⟨W.endPosAux (l.take m) cur, ⟨x.file, x.next⟩, x.ts, cs⟩) = false ∧
          (specOut E acc e l cur).calls = (specOut E acc e l cur).accepted ++
            [toTx E ⟨W.endPosAux (l.take m) cur, ⟨x.file, x.next⟩, x.ts, cs⟩] ∧
          (specOut E acc e l cur).err = true))
  | [], cur => ⟨0, Nat.le_refl _, by simp [specOut, W.expectedAux, W.endPosAux]⟩
  | x :: xs, cur => by
    -- an event that neither commits nor is rejected: one more event consumed
    have step : ∀ cur', specOut E acc e (x :: xs) cur = specOut E acc e xs cur' →
        (∀ c, W.expectedAux (x :: c) cur = W.expectedAux c cur') → (∀ c, W.endPosAux (x :: c) cur = W.endPosAux c cur') →
        ∃ m, m ≤ (x :: xs).length ∧
          (specOut E acc e (x :: xs) cur).accepted = (W.expectedAux ((x :: xs).take m) cur).map (toTx E) ∧
          (specOut E acc e (x :: xs) cur).pos = posOf (W.endPosAux ((x :: xs).take m) cur) ∧
          (specOut E acc e (x :: xs) cur).crash = false ∧
          (((specOut E acc e (x :: xs) cur).calls = (specOut E acc e (x :: xs) cur).accepted ∧
              (specOut E acc e (x :: xs) cur).err = e ∧ m = (x :: xs).length) ∨
           (∃ y rest cs, (x :: xs).drop m = y :: rest ∧ y.tag = .commit cs ∧
              acc (toTx E ⟨W.endPosAux ((x :: xs).take m) cur, ⟨y.file, y.next⟩, y.ts, cs⟩) = false ∧
              (specOut E acc e (x :: xs) cur).calls = (specOut E acc e (x :: xs) cur).accepted ++
                [toTx E ⟨W.endPosAux ((x :: xs).take m) cur, ⟨y.file, y.next⟩, y.ts, cs⟩] ∧
              (specOut E acc e (x :: xs) cur).err = true)) := by
      intro cur' hs hx hy
      obtain ⟨m, hm, h1, h2, h3, h4⟩ := specOut_spec E acc e xs cur'
      refine ⟨m + 1, by simp [hm], ?_⟩
      rw [hs, List.take_succ_cons, List.drop_succ_cons, hx, hy]
      refine ⟨h1, h2, h3, ?_⟩
      rcases h4 with ⟨h5, h6, h7⟩ | h5
      · exact Or.inl ⟨h5, h6, by simp [h7]⟩
      · exact Or.inr h5
    cases ht : x.tag with
    | commit cs =>
      cases ha : acc (toTx E ⟨cur, ⟨x.file, x.next⟩, x.ts, cs⟩) with
      | false =>
        have hs : specOut E acc e (x :: xs) cur
            = ⟨[toTx E ⟨cur, ⟨x.file, x.next⟩, x.ts, cs⟩], [], posOf cur, true, false⟩ := by
          simp [specOut, ht, ha]
        rw [hs]
        exact ⟨0, Nat.zero_le _, rfl, rfl, rfl, Or.inr ⟨x, xs, cs, rfl, ht, ha, rfl, rfl⟩⟩
      | true =>
        obtain ⟨m, hm, h1, h2, h3, h4⟩ := specOut_spec E acc e xs ⟨x.file, x.next⟩
        refine ⟨m + 1, by simp [hm], ?_⟩
        have hx : ∀ c, W.expectedAux (x :: c) cur
            = ⟨cur, ⟨x.file, x.next⟩, x.ts, cs⟩ :: W.expectedAux c ⟨x.file, x.next⟩ := by
          intro c; simp [W.expectedAux, ht]
        have hy : ∀ c, W.endPosAux (x :: c) cur = W.endPosAux c ⟨x.file, x.next⟩ := by
          intro c; simp [W.endPosAux, ht]
        have hs : specOut E acc e (x :: xs) cur
            = { specOut E acc e xs ⟨x.file, x.next⟩ with
                calls := toTx E ⟨cur, ⟨x.file, x.next⟩, x.ts, cs⟩ :: (specOut E acc e xs ⟨x.file, x.next⟩).calls,
                accepted := toTx E ⟨cur, ⟨x.file, x.next⟩, x.ts, cs⟩ :: (specOut E acc e xs ⟨x.file, x.next⟩).accepted } := by
          simp [specOut, ht, ha]
        rw [hs, List.take_succ_cons, List.drop_succ_cons, hx, hy]
        refine ⟨by simp [h1], h2, h3, ?_⟩
        rcases h4 with ⟨h5, h6, h7⟩ | ⟨y, rest, cs', h5, h6, h7, h8, h9⟩
        · exact Or.inl ⟨by simp [h5], h6, by simp [h7]⟩
        · exact Or.inr ⟨y, rest, cs', h5, h6, h7, by simp [h8], h9⟩
    | rotateTo f =>
      exact step ⟨f, 4⟩ (by simp [specOut, ht]) (by intro c; simp [W.expectedAux, ht]) (by intro c; simp [W.endPosAux, ht])
    | none =>
      exact step cur (by simp [specOut, ht]) (by intro c; simp [W.expectedAux, ht]) (by intro c; simp [W.endPosAux, ht])
    | stopThenRotateTo f =>
      exact step cur (by simp [specOut, ht]) (by intro c; simp [W.expectedAux, ht]) (by intro c; simp [W.endPosAux, ht])
    | fileHead =>
      exact step cur (by simp [specOut, ht]) (by intro c; simp [W.expectedAux, ht]) (by intro c; simp [W.endPosAux, ht])

/-! ### the run of the parser against laid-out events, for ANY predicate closed under the one-event steps

  `GV.C01c.units_run` is stated for `Good` (accept-everything handler, complete stream).  The same walk over the units
  is needed here for every handler, cut and ending, so it is redone once for an arbitrary predicate `G` closed under the
  four one-event rules (`Rules`); the lemmas below are the ones of GV/Lemmas/C01c.lean with `Good env` replaced by `G`
  (each step additionally hands over that the parser's position is the Spec's). -/

structure Rules (env : Env) (G : PState → W.Pos → List W.Laid → Prop) : Prop where
  nil : ∀ (st : PState) (cur : W.Pos), st.pos = posOf cur → G st cur []
  cont : ∀ (st st' : PState) (cur : W.Pos) (e : W.Laid) (l : List W.Laid) (d : Decoded), st.pos = posOf cur →
    classify env st e.bytes = d → stepD st d = .cont st' → (e.tag = .none ∨ e.tag = .fileHead) → G st' cur l →
    G st cur (e :: l)
  rot : ∀ (st st' : PState) (cur : W.Pos) (e : W.Laid) (l : List W.Laid) (d : Decoded) (f : Bytes), st.pos = posOf cur →
    classify env st e.bytes = d → stepD st d = .cont st' → e.tag = .rotateTo f → G st' ⟨f, 4⟩ l → G st cur (e :: l)
  deliver : ∀ (st acc : PState) (cur : W.Pos) (e : W.Laid) (l : List W.Laid) (d : Decoded) (cs : List W.Change),
    st.pos = posOf cur → classify env st e.bytes = d →
    stepD st d = .deliver (toTx env.ext ⟨cur, ⟨e.file, e.next⟩, e.ts, cs⟩) acc → e.tag = .commit cs →
    G acc ⟨e.file, e.next⟩ l → G st cur (e :: l)

section walk
variable {env : Env} {G : PState → W.Pos → List W.Laid → Prop}

theorem lay_cont (R : Rules env G) {cfg : W.Cfg} {st st' : PState} {cur : W.Pos} {typ : Nat} {body : Bytes} {ts : Nat}
    {us : Bool} {es : List W.AEv} {file : Bytes} {off : Nat} (d : Decoded) (hp : st.pos = posOf cur)
    (hc : classify env st (bytesAt cfg off typ ts body) = d) (hs : stepD st d = .cont st')
    (hg : G st' cur (W.layoutAux cfg es file (endOf cfg off body))) :
    G st cur (W.layoutAux cfg (⟨typ, body, ts, .none, us⟩ :: es) file off) := by
  rw [layoutAux_none]
  exact R.cont st st' cur _ _ d hp hc hs (Or.inl rfl) hg

theorem lay_deliver (R : Rules env G) {cfg : W.Cfg} {st acc : PState} {cur : W.Pos} {typ : Nat} {body : Bytes} {ts : Nat}
    {cs : List W.Change} {us : Bool} {es : List W.AEv} {file : Bytes} {off : Nat} (d : Decoded)
    (hp : st.pos = posOf cur)
    (hc : classify env st (bytesAt cfg off typ ts body) = d)
    (hs : stepD st d = .deliver (toTx env.ext ⟨cur, ⟨file, endOf cfg off body⟩, ts, cs⟩) acc)
    (hg : G acc ⟨file, endOf cfg off body⟩ (W.layoutAux cfg es file (endOf cfg off body))) :
    G st cur (W.layoutAux cfg (⟨typ, body, ts, .commit cs, us⟩ :: es) file off) := by
  rw [layoutAux_commit]
  exact R.deliver st acc cur _ _ d cs hp hc hs rfl hg

theorem announce_run (R : Rules env G) {cfg : W.Cfg} {P : W.TableDef → Prop} (ctx : Ctx env P) (c : W.RowsChange)
    (u : Bool) (hP : P c.table) (hok : RowsOK cfg c) {st : PState} {file : Bytes} {cur : W.Pos} {known : List Nat}
    (off : Nat) (hI : Inv cfg P st file cur known) (hann : c.announce = true ∨ c.table.id ∈ known) (rest : List W.AEv)
    (hb : Bnd (W.layoutAux cfg ((if c.announce then [tmAEv cfg c u] else []) ++ rest) file off))
    (k : ∀ st' off', Inv cfg P st' file cur (c.table.id :: known) → st'.tran = st.tran →
      st'.autocommit = st.autocommit → findTable st'.tables c.table.id = some ⟨tmOf c.table, infoOf c.table⟩ →
      Bnd (W.layoutAux cfg rest file off') → G st' cur (W.layoutAux cfg rest file off')) :
    G st cur (W.layoutAux cfg ((if c.announce then [tmAEv cfg c u] else []) ++ rest) file off) := by
  cases ha : c.announce with
  | true =>
    simp only [ha, if_true, List.cons_append, List.nil_append, tmAEv] at hb ⊢
    obtain ⟨hb1, hb2⟩ := bnd_none hb
    obtain ⟨d, st', hcl, hs, hI', htr, hau, hf⟩ := tm_step ctx hI c.table hP hok.table off c.ts c.tmOptional hok.ts hb1
    exact lay_cont R d hI.pos hcl hs (k st' _ hI' htr hau hf hb2)
  | false =>
    simp only [ha, Bool.false_eq_true, if_false, List.nil_append] at hb ⊢
    have hk : c.table.id ∈ known := by
      rcases hann with h | h
      · rw [ha] at h; cases h
      · exact h
    have hne := hI.known _ hk
    cases hc : findTable st.tables c.table.id with
    | none => exact absurd hc hne
    | some tc =>
      have := cache_eq ctx hI c.table hP tc hc
      subst this
      refine k st off ⟨hI.fmt, hI.pos, hI.file, hI.cache, ?_⟩ rfl rfl hc hb
      intro id hid
      rcases List.mem_cons.mp hid with h1 | h1
      · rw [h1, hc]; simp
      · exact hI.known id h1

theorem changes_run (R : Rules env G) {cfg : W.Cfg} {P : W.TableDef → Prop} (ctx : Ctx env P) :
    ∀ (cs : List W.Change) (rest : List W.AEv) (Rs : List W.RowsChange) (st : PState) (acc : List StreamEvent)
      (file : Bytes) (off : Nat) (cur : W.Pos) (known : List Nat),
    Inv cfg P st file cur known → st.tran = some acc → st.autocommit = false →
    (∀ c ∈ cs, ChangeOK cfg c) → (∀ c ∈ changeRows cs, P c.table) → annOK known (changeRows cs ++ Rs) →
    Bnd (W.layoutAux cfg (cs.flatMap (W.changeEvs cfg) ++ rest) file off) →
    (∀ st' off' known', Inv cfg P st' file cur known' → st'.tran = some (acc ++ cs.map (seOfChange env.ext)) →
      st'.autocommit = false → annOK known' Rs → Bnd (W.layoutAux cfg rest file off') →
      G st' cur (W.layoutAux cfg rest file off')) →
    G st cur (W.layoutAux cfg (cs.flatMap (W.changeEvs cfg) ++ rest) file off) := by
  intro cs
  induction cs with
  | nil =>
    intro rest Rs st acc file off cur known hI ht ha _ _ hann hb k
    simp only [List.flatMap_nil, List.nil_append] at hb ⊢
    exact k st off known hI (by simpa using ht) ha (by simpa [changeRows] using hann) hb
  | cons ch cs ih =>
    intro rest Rs st acc file off cur known hI ht ha hok hP hann hb k
    have hok' : ∀ c ∈ cs, ChangeOK cfg c := fun c hc => hok c (List.mem_cons_of_mem _ hc)
    cases ch with
    | stmt s =>
      obtain ⟨hs, hcat⟩ := hok (.stmt s) List.mem_cons_self
      simp only [List.flatMap_cons, W.changeEvs, W.stmtEv, List.cons_append, List.nil_append] at hb ⊢
      obtain ⟨hb1, hb2⟩ := bnd_none hb
      have hcl := cl_query env st cfg hI.fmt off s.ts s.vars s.db s.sql hs.vars hs.varsLen hs.db hs.ts hb1
      rw [hs.cat, ← hs.charset] at hcl
      refine lay_cont R _ hI.pos hcl (sd_stmt_tx st acc ht ha s.cat _ _ s.ts hcat) ?_
      refine ih rest Rs _ (acc ++ [seOfStmt s]) file _ cur known (inv_tran' hI _) rfl ha hok'
        (by simpa [changeRows] using hP) (by simpa [changeRows] using hann) hb2 ?_
      intro st' off' known' hI' ht' ha' hann' hb'
      exact k st' off' known' hI' (by simpa [seOfChange] using ht') ha' hann' hb'
    | rows c =>
      obtain ⟨hrc, hne⟩ := hok (.rows c) List.mem_cons_self
      have hPc : P c.table := hP c (by simp [changeRows])
      simp only [changeRows, List.cons_append] at hann
      obtain ⟨hann1, hann2⟩ := hann
      have htm : W.tableMapEv cfg c = tmAEv cfg c false := rfl
      simp only [List.flatMap_cons, W.changeEvs, List.append_assoc, htm] at hb ⊢
      refine announce_run R ctx c false hPc hrc off hI hann1 _ hb ?_
      intro st1 off1 hI1 ht1 ha1 hf1 hb1
      simp only [W.rowsEv, List.cons_append, List.nil_append] at hb1 ⊢
      obtain ⟨hb2, hb3⟩ := bnd_none hb1
      have hcl := cl_rows env st1 cfg hI1.fmt off1 c hrc hne hb2 hf1
      refine lay_cont R _ hI1.pos hcl (sd_rows_tx st1 acc (ht1.trans ht) (ha1.trans ha) _ _ c.ts) ?_
      refine ih rest Rs _ (acc ++ [seOfRows env.ext c]) file _ cur (c.table.id :: known) (inv_tran' hI1 _) rfl
        (ha1.trans ha) hok' (fun x hx => hP x (by simp [changeRows, hx])) hann2 hb3 ?_
      intro st' off' known' hI' ht' ha' hann' hb'
      exact k st' off' known' hI' (by simpa [seOfChange] using ht') ha' hann' hb'

/-- moving on to file `f`: the artificial ROTATE naming it, then its FORMAT_DESCRIPTION event -/
theorem newfile_run (R : Rules env G) {cfg : W.Cfg} {P : W.TableDef → Prop} {st : PState} {file : Bytes} {cur : W.Pos}
    {known : List Nat} (hI : Inv cfg P st file cur known) (f : Bytes) (file0 : Bytes) (seed : Nat)
    (hl : 27 + f.length + (if cfg.crc then 4 else 0) < 2 ^ 32) (l : List W.Laid)
    (hg : ∀ st', Inv cfg P st' f ⟨f, 4⟩ known → st'.tran = st.tran → st'.autocommit = st.autocommit →
      G st' ⟨f, 4⟩ l) :
    G st cur (⟨file0, seed, seed, fakeRotBytes cfg seed 4 f, 0, .rotateTo f, false⟩
      :: ⟨f, 4, (W.fdeEvent cfg 4 none).2, (W.fdeEvent cfg 4 none).1, 0, .fileHead, false⟩ :: l) := by
  have h1 := cl_fakeRot env st cfg hI.fmt seed 4 f (by decide) hl
  refine R.rot st { st with pos := ⟨f, ((4 : Nat) : Int)⟩ } cur _ _ _ f hI.pos h1 rfl rfl ?_
  have h2 := C01_classify_fde env { st with pos := ⟨f, ((4 : Nat) : Int)⟩ } cfg 4 none (by decide) (by simp)
  refine R.cont _ { st with pos := ⟨f, ((4 : Nat) : Int)⟩, format := fmtOf cfg } ⟨f, 4⟩ _ _ _ rfl h2 rfl (Or.inr rfl) ?_
  exact hg _ (inv_format (inv_rotate hI f)) rfl rfl

/-- an event the parser ignores -/
theorem skip_run (R : Rules env G) {cfg : W.Cfg} {P : W.TableDef → Prop} {st : PState} {file : Bytes} {cur : W.Pos}
    {known : List Nat} (hI : Inv cfg P st file cur known) (typ : Nat) (body : Bytes) (u : Bool) (es : List W.AEv)
    (off : Nat) (ht : typ < 256) (hty : typ ∉ handledTypes)
    (hb : Bnd (W.layoutAux cfg (⟨typ, body, 0, .none, u⟩ :: es) file off))
    (k : Bnd (W.layoutAux cfg es file (endOf cfg off body)) → G st cur (W.layoutAux cfg es file (endOf cfg off body))) :
    G st cur (W.layoutAux cfg (⟨typ, body, 0, .none, u⟩ :: es) file off) := by
  obtain ⟨hb1, hb2⟩ := bnd_none hb
  exact lay_cont R _ hI.pos (cl_skip env st cfg hI.fmt off 0 typ body ht hty (by decide) hb1) rfl (k hb2)

/-- a statement delivered on its own (DDL / statement-format DML outside a transaction) -/
theorem single_stmt_run (R : Rules env G) {cfg : W.Cfg} {P : W.TableDef → Prop} {st : PState} {file : Bytes}
    {cur : W.Pos} {known : List Nat} (hI : Inv cfg P st file cur known) (ht : st.tran = none)
    (ha : st.autocommit = true) (s : W.StmtChange) (hs : StmtOK s) (hcat : isChangeCat s.cat) (u : Bool)
    (es : List W.AEv) (off : Nat)
    (hb : Bnd (W.layoutAux cfg (⟨2, W.queryBody 1 0 0 s.vars s.db s.sql, s.ts, .commit [.stmt s], u⟩ :: es) file off))
    (k : ∀ st' off', Inv cfg P st' file ⟨file, off'⟩ known → st'.tran = none → st'.autocommit = true →
      Bnd (W.layoutAux cfg es file off') → G st' ⟨file, off'⟩ (W.layoutAux cfg es file off')) :
    G st cur (W.layoutAux cfg (⟨2, W.queryBody 1 0 0 s.vars s.db s.sql, s.ts, .commit [.stmt s], u⟩ :: es) file off) := by
  obtain ⟨hb1, hb2⟩ := bnd_commit hb
  have hcl := cl_query env st cfg hI.fmt off s.ts s.vars s.db s.sql hs.vars hs.varsLen hs.db hs.ts hb1
  rw [hs.cat, ← hs.charset] at hcl
  refine lay_deliver R _ hI.pos hcl ?_ (k _ _ (inv_commit hI _) rfl rfl hb2)
  rw [sd_stmt_idle st ht ha s.cat _ _ s.ts hcat, toTx_eq hI]
  rfl

theorem units_run (R : Rules env G) {cfg : W.Cfg} {P : W.TableDef → Prop} (ctx : Ctx env P) :
    ∀ (us : List W.Unit) (st : PState) (file : Bytes) (off : Nat) (cur : W.Pos) (known : List Nat),
    Inv cfg P st file cur known → st.tran = none → st.autocommit = true →
    (∀ u ∈ us, UnitOK cfg u) → (∀ c ∈ histRows us, P c.table) → annOK known (histRows us) →
    Bnd (W.layoutAux cfg (us.flatMap (W.unitEvs cfg)) file off) →
    G st cur (W.layoutAux cfg (us.flatMap (W.unitEvs cfg)) file off) := by
  intro us
  induction us with
  | nil =>
    intro st file off cur known hI _ _ _ _ _ _
    simp only [List.flatMap_nil, W.layoutAux]
    exact R.nil st cur hI.pos
  | cons u us ih =>
    intro st file off cur known hI ht ha hok hP hann hb
    have hok' : ∀ u ∈ us, UnitOK cfg u := fun x hx => hok x (List.mem_cons_of_mem _ hx)
    have hu := hok u List.mem_cons_self
    rw [histRows_cons] at hP hann
    simp only [List.flatMap_cons] at hb ⊢
    cases u with
    | tx b cs close ts =>
      obtain ⟨hbeg, hcs, hclose, hts⟩ := hu
      simp only [unitRows] at hP hann
      -- the events after the changes: the closer, then the later units
      have key : ∀ (closeEv : W.AEv),
          (∀ st' off' known', Inv cfg P st' file cur known' → st'.tran = some (cs.map (seOfChange env.ext)) →
            st'.autocommit = false → annOK known' (histRows us) →
            Bnd (W.layoutAux cfg (closeEv :: us.flatMap (W.unitEvs cfg)) file off') →
            G st' cur (W.layoutAux cfg (closeEv :: us.flatMap (W.unitEvs cfg)) file off')) →
          Bnd (W.layoutAux cfg (W.markStart ([W.stmtEv ⟨b, [], ts, [], 0, none⟩ .none] ++ cs.flatMap (W.changeEvs cfg) ++ [closeEv])
                ++ us.flatMap (W.unitEvs cfg)) file off) →
          G st cur (W.layoutAux cfg (W.markStart ([W.stmtEv ⟨b, [], ts, [], 0, none⟩ .none] ++ cs.flatMap (W.changeEvs cfg) ++ [closeEv])
                ++ us.flatMap (W.unitEvs cfg)) file off) := by
        intro closeEv k hb
        simp only [W.stmtEv, List.cons_append, List.nil_append, W.markStart, List.append_assoc] at hb ⊢
        obtain ⟨hb1, hb2⟩ := bnd_none hb
        have hcl := cl_query env st cfg hI.fmt off ts [] [] b (by simp) (by simp) (by simp) hts hb1
        rw [hbeg] at hcl
        refine lay_cont R _ hI.pos hcl (SL.step_begin _ _ _) ?_
        refine changes_run R ctx cs _ (histRows us) _ [] file _ cur known (inv_tran hI _ _) rfl rfl hcs
          (fun c hc => hP c (List.mem_append_left _ hc)) hann hb2 ?_
        intro st' off' known' hI' ht' ha' hann' hb'
        exact k st' off' known' hI' (by simpa using ht') ha' hann' hb'
      cases close with
      | xid n =>
        simp only [W.unitEvs] at hb ⊢
        refine key _ ?_ hb
        intro st' off' known' hI' ht' ha' hann' hb'
        obtain ⟨hb1, hb2⟩ := bnd_commit hb'
        have hcl := cl_xid env st' cfg hI'.fmt off' ts n hts hb1
        refine lay_deliver R _ hI'.pos hcl ?_ (ih _ file _ _ known' (inv_commit hI' _) rfl rfl hok'
          (fun c hc => hP c (List.mem_append_right _ hc)) hann' hb2)
        have := SL.step_closer (st := st') ⟨ht', ha'⟩ .xid (endOf cfg off' (W.xidBody n)) ts
        rw [toTx_eq hI']
        exact this
      | commit sql =>
        simp only [W.unitEvs, W.stmtEv] at hb ⊢
        refine key _ ?_ hb
        intro st' off' known' hI' ht' ha' hann' hb'
        obtain ⟨hb1, hb2⟩ := bnd_commit hb'
        have hcl := cl_query env st' cfg hI'.fmt off' ts [] [] sql (by simp) (by simp) (by simp) hts hb1
        simp only [CloserOK] at hclose
        rw [hclose] at hcl
        refine lay_deliver R _ hI'.pos hcl ?_ (ih _ file _ _ known' (inv_commit hI' _) rfl rfl hok'
          (fun c hc => hP c (List.mem_append_right _ hc)) hann' hb2)
        have := SL.step_closer (st := st') ⟨ht', ha'⟩ (.commit ⟨[], Props.C16.charsetOf [], sql⟩)
          (endOf cfg off' (W.queryBody 1 0 0 [] [] sql)) ts
        rw [toTx_eq hI']
        exact this
      | rollback sql =>
        simp only [W.unitEvs, W.stmtEv] at hb ⊢
        refine key _ ?_ hb
        intro st' off' known' hI' ht' ha' hann' hb'
        obtain ⟨hb1, hb2⟩ := bnd_commit hb'
        have hcl := cl_query env st' cfg hI'.fmt off' ts [] [] sql (by simp) (by simp) (by simp) hts hb1
        simp only [CloserOK] at hclose
        rw [hclose] at hcl
        refine lay_deliver R _ hI'.pos hcl ?_ (ih _ file _ _ known' (inv_commit hI' _) rfl rfl hok'
          (fun c hc => hP c (List.mem_append_right _ hc)) hann' hb2)
        have := SL.step_closer (st := st') ⟨ht', ha'⟩ (.rollback ⟨[], Props.C16.charsetOf [], sql⟩)
          (endOf cfg off' (W.queryBody 1 0 0 [] [] sql)) ts
        rw [toTx_eq hI']
        exact this
    | ddl s =>
      obtain ⟨hs, hcat⟩ := hu
      simp only [unitRows, List.nil_append] at hP hann
      simp only [W.unitEvs, W.stmtEv, W.markStart, List.cons_append, List.nil_append] at hb ⊢
      refine single_stmt_run R hI ht ha s hs hcat _ _ off hb ?_
      intro st' off' hI' ht' ha' hb'
      exact ih st' file off' _ known hI' ht' ha' hok' hP hann hb'
    | stmtDML s =>
      obtain ⟨hs, hcat⟩ := hu
      simp only [unitRows, List.nil_append] at hP hann
      simp only [W.unitEvs, W.stmtEv, W.markStart, List.cons_append, List.nil_append] at hb ⊢
      refine single_stmt_run R hI ht ha s hs hcat _ _ off hb ?_
      intro st' off' hI' ht' ha' hb'
      exact ih st' file off' _ known hI' ht' ha' hok' hP hann hb'
    | autoRows c =>
      obtain ⟨hrc, hne⟩ := hu
      simp only [unitRows, List.cons_append, List.nil_append] at hP hann
      obtain ⟨hann1, hann2⟩ := hann
      have hPc : P c.table := hP c List.mem_cons_self
      have hev : W.unitEvs cfg (.autoRows c) = (if c.announce then [tmAEv cfg c true] else []) ++
          [⟨W.rowsEventType c.kind cfg.rowsV2,
            W.rowsBody c.kind cfg.rowsV2 (if cfg.idw4 then 4 else 6) c.table.id c.flags c.extra c.table.cols
              c.presentBefore c.presentAfter c.rows, c.ts, .commit [.rows c], !c.announce⟩] := by
        simp only [W.unitEvs, W.rowsEv, W.tableMapEv, tmAEv]
        cases c.announce <;> rfl
      rw [hev, List.append_assoc] at hb ⊢
      refine announce_run R ctx c true hPc hrc off hI hann1 _ hb ?_
      intro st1 off1 hI1 ht1 ha1 hf1 hb1
      simp only [List.cons_append, List.nil_append] at hb1 ⊢
      obtain ⟨hb2, hb3⟩ := bnd_commit hb1
      have hcl := cl_rows env st1 cfg hI1.fmt off1 c hrc hne hb2 hf1
      refine lay_deliver R _ hI1.pos hcl ?_ (ih _ file _ _ _ (inv_commit hI1 _) rfl rfl hok'
        (fun x hx => hP x (List.mem_cons_of_mem _ hx)) hann2 hb3)
      rw [sd_rows_idle st1 (ht1.trans ht) (ha1.trans ha), toTx_eq hI1]
      rfl
    | rotate f =>
      simp only [unitRows, List.nil_append] at hP hann
      simp only [W.unitEvs, W.markStart, List.cons_append, List.nil_append] at hb ⊢
      rw [layoutAux_rotate] at hb ⊢
      obtain ⟨hb1, hb2⟩ := bnd_cons hb
      obtain ⟨_, hb3⟩ := bnd_cons hb2
      obtain ⟨_, hb4⟩ := bnd_cons hb3
      have hb1' : endOf cfg off (W.rotateBody 4 f) < 2 ^ 32 := hb1
      have hcl := cl_rotate env st cfg hI.fmt off 0 4 f (by decide) (by decide) hb1'
      refine R.rot st { st with pos := ⟨f, ((4 : Nat) : Int)⟩ } cur _ _ _ f hI.pos hcl rfl rfl ?_
      have hl : 27 + f.length + (if cfg.crc then 4 else 0) < 2 ^ 32 := by
        have hlen : (W.rotateBody 4 f).length = 8 + f.length := by simp [W.rotateBody]
        have hcn : crcN cfg off = if cfg.crc then 4 else 0 := by
          unfold crcN W.crcOf Props.C16.crcLen
          cases cfg.crc <;> simp
        unfold endOf at hb1'
        rw [hlen, hcn] at hb1'
        omega
      refine newfile_run R (inv_rotate hI f) f file _ hl _ ?_
      intro st' hI' ht' ha'
      exact ih st' f _ _ known hI' (ht'.trans ht) (ha'.trans ha) hok' hP hann hb4
    | restart f =>
      simp only [unitRows, List.nil_append] at hP hann
      simp only [W.unitEvs, W.markStart, List.cons_append, List.nil_append] at hb ⊢
      rw [layoutAux_restart] at hb ⊢
      obtain ⟨hb1, hb2⟩ := bnd_cons hb
      obtain ⟨_, hb3⟩ := bnd_cons hb2
      obtain ⟨_, hb4⟩ := bnd_cons hb3
      have hb1' : endOf cfg off [] < 2 ^ 32 := hb1
      have hcl := cl_skip env st cfg hI.fmt off 0 3 [] (by decide) (by decide) (by decide) hb1'
      refine R.cont st st cur _ _ _ hI.pos hcl rfl (Or.inl rfl) ?_
      have hl : 27 + f.length + (if cfg.crc then 4 else 0) < 2 ^ 32 := by
        have : f.length < 2 ^ 31 := hu
        simp only [Nat.reducePow] at this ⊢
        split <;> omega
      refine newfile_run R hI f file _ hl _ ?_
      intro st' hI' ht' ha'
      exact ih st' f _ _ known hI' (ht'.trans ht) (ha'.trans ha) hok' hP hann hb4
    | gtid sid gno =>
      simp only [unitRows, List.nil_append] at hP hann
      simp only [W.unitEvs, W.markStart, List.cons_append, List.nil_append] at hb ⊢
      exact skip_run R hI _ _ _ _ off (by decide) (by decide) hb
        (fun hb' => ih st file _ cur known hI ht ha hok' hP hann hb')
    | anonGtid =>
      simp only [unitRows, List.nil_append] at hP hann
      simp only [W.unitEvs, W.markStart, List.cons_append, List.nil_append] at hb ⊢
      exact skip_run R hI _ _ _ _ off (by decide) (by decide) hb
        (fun hb' => ih st file _ cur known hI ht ha hok' hP hann hb')
    | prevGtids blk =>
      simp only [unitRows, List.nil_append] at hP hann
      simp only [W.unitEvs, W.markStart, List.cons_append, List.nil_append] at hb ⊢
      exact skip_run R hI _ _ _ _ off (by decide) (by decide) hb
        (fun hb' => ih st file _ cur known hI ht ha hok' hP hann hb')
    | heartbeat =>
      simp only [unitRows, List.nil_append] at hP hann
      simp only [W.unitEvs, W.markStart, List.cons_append, List.nil_append] at hb ⊢
      exact skip_run R hI _ _ _ _ off (by decide) (by decide) hb
        (fun hb' => ih st file _ cur known hI ht ha hok' hP hann hb')
    | unknownEvent typ body =>
      obtain ⟨hlt, hty⟩ := hu
      simp only [unitRows, List.nil_append] at hP hann
      simp only [W.unitEvs, W.markStart, List.cons_append, List.nil_append] at hb ⊢
      exact skip_run R hI _ _ _ _ off hlt hty hb
        (fun hb' => ih st file _ cur known hI ht ha hok' hP hann hb')
    | unknownStmt s =>
      obtain ⟨hs, hcat⟩ := hu
      simp only [unitRows, List.nil_append] at hP hann
      simp only [W.unitEvs, W.stmtEv, W.markStart, List.cons_append, List.nil_append] at hb ⊢
      obtain ⟨hb1, hb2⟩ := bnd_none hb
      have hcl := cl_query env st cfg hI.fmt off s.ts s.vars s.db s.sql hs.vars hs.varsLen hs.db hs.ts hb1
      rw [hs.cat] at hcl
      exact lay_cont R _ hI.pos hcl (sd_unknown st _ _ _ _ hcat) (ih st file _ cur known hI ht ha hok' hP hann hb2)

end walk

/-! ### the predicate: every handler, every cut, every quiet ending -/

/-- from state `st`, with the Spec's current position `cur`: whatever the handler, however many of the laid-out events
    `l` arrive and however the attempt then ends, the parser reports what the Spec says (`specOut`) -/
def GoodH (env : Env) (st : PState) (cur : W.Pos) (l : List W.Laid) : Prop :=
  ∀ (acc : Transaction → Bool) (e : Bool) (tail : List Input), EndsWith env e tail → ∀ m : Nat,
    parseEvents env acc st ((l.take m).map (fun x => Input.event x.bytes) ++ tail)
      = specOut env.ext acc e (l.take m) cur

theorem goodH_zero {env : Env} {st : PState} {cur : W.Pos} (hp : st.pos = posOf cur) (acc : Transaction → Bool)
    (e : Bool) (tail : List Input) (ht : EndsWith env e tail) :
    parseEvents env acc st tail = specOut env.ext acc e [] cur := by
  rw [ht acc st, hp]; rfl

theorem goodH_rules (env : Env) : Rules env (GoodH env) where
  nil := by
    intro st cur hp acc e tail ht m
    simp only [List.take_nil, List.map_nil, List.nil_append]
    exact goodH_zero hp acc e tail ht
  cont := by
    intro st st' cur x l d hp hc hs htag hg acc e tail ht m
    cases m with
    | zero => simpa using goodH_zero hp acc e tail ht
    | succ m =>
      simp only [List.take_succ_cons, List.map_cons, List.cons_append, parseEvents, stepEvent, hc, hs]
      rw [hg acc e tail ht m]
      rcases htag with htag | htag <;> simp [specOut, htag]
  rot := by
    intro st st' cur x l d f hp hc hs htag hg acc e tail ht m
    cases m with
    | zero => simpa using goodH_zero hp acc e tail ht
    | succ m =>
      simp only [List.take_succ_cons, List.map_cons, List.cons_append, parseEvents, stepEvent, hc, hs]
      rw [hg acc e tail ht m]
      simp [specOut, htag]
  deliver := by
    intro st st' cur x l d cs hp hc hs htag hg acc e tail ht m
    cases m with
    | zero => simpa using goodH_zero hp acc e tail ht
    | succ m =>
      simp only [List.take_succ_cons, List.map_cons, List.cons_append, parseEvents, stepEvent, hc, hs]
      rw [hg acc e tail ht m]
      cases ha : acc (toTx env.ext ⟨cur, ⟨x.file, x.next⟩, x.ts, cs⟩) <;> simp [specOut, htag, ha, hp]

/-! ### one attempt against the Spec master -/

/-- the units laid out from offset `o` of p's file, parsed with an empty table cache -/
theorem goodH_units (cfg : W.Cfg) (env : Env) (us : List W.Unit) (p : W.Pos) (o : Nat)
    (hu : ∀ u ∈ us, UnitOK cfg u)
    (ht : ∀ c1 ∈ histRows us, ∀ c2 ∈ histRows us, c1.table.id = c2.table.id → c1.table = c2.table)
    (ha : annOK [] (histRows us)) (hm : MapperAgrees env us)
    (hb : Bnd (W.layoutAux cfg (us.flatMap (W.unitEvs cfg)) p.file o)) :
    GoodH env { PState.init (posOf p) with format := fmtOf cfg } p
      (W.layoutAux cfg (us.flatMap (W.unitEvs cfg)) p.file o) := by
  let P : W.TableDef → Prop := fun t => ∃ c ∈ histRows us, c.table = t
  have ctx : Ctx env P := by
    refine ⟨?_, ?_⟩
    · rintro t1 t2 ⟨c1, h1, rfl⟩ ⟨c2, h2, rfl⟩ hid
      exact ht c1 h1 c2 h2 hid
    · rintro t ⟨c, hc, rfl⟩
      exact hm c hc
  have hI : Inv cfg P { PState.init (posOf p) with format := fmtOf cfg } p.file p [] := by
    refine ⟨rfl, rfl, rfl, ?_, ?_⟩
    · intro id tc hf; simp [PState.init, findTable] at hf
    · intro id hid; cases hid
  exact units_run (goodH_rules env) ctx us _ p.file o p [] hI rfl rfl hu (fun c hc => ⟨c, hc, rfl⟩) ha hb

theorem served_suffix (cfg : W.Cfg) (h : W.History) (p : W.Pos) : ∃ pre, W.layout cfg h = pre ++ served cfg h p := by
  obtain ⟨t, ht⟩ := List.dropWhile_suffix (l := W.layout cfg h)
    (fun e : W.Laid => !(e.file == p.file && e.start ≥ p.offset))
  exact ⟨t, ht.symm⟩

/-- what is served from a position where the master `Lands`: nothing, or the layout of a suffix of the history at p's
    file — from the first event of a unit, or from the FORMAT_DESCRIPTION event at the head of the file -/
theorem served_shape (cfg : W.Cfg) (h : W.History) (p : W.Pos) (hl : Lands cfg h p) :
    served cfg h p = [] ∨
    ∃ us₁ us₂, h = us₁ ++ us₂ ∧ unitsFrom cfg h p = us₂ ∧
      ((∃ e rest o, served cfg h p = e :: rest ∧ e.tag ≠ .fileHead ∧
          served cfg h p = W.layoutAux cfg (us₂.flatMap (W.unitEvs cfg)) p.file o) ∨
       served cfg h p = fdeL cfg p.file :: W.layoutAux cfg (us₂.flatMap (W.unitEvs cfg)) p.file (FN cfg)) := by
  unfold Lands at hl
  unfold served
  rcases hfp : W.fromPos (W.layout cfg h) p with _ | ⟨e, rest⟩
  · exact Or.inl rfl
  · right
    rw [hfp] at hl
    have hfile := fromPos_head_file _ _ _ _ hfp
    obtain ⟨pre, hpre⟩ := served_suffix cfg h p
    unfold served at hpre
    rw [hfp] at hpre
    obtain ⟨us₁, us₂, hsplit, hcase⟩ := layout_split_at cfg h pre e rest hpre hl
    subst hsplit
    rcases hcase with ⟨_, hnf, hlay⟩ | ⟨he, hlay⟩
    · have hus : unitsFrom cfg (us₁ ++ us₂) p = us₂ := by
        apply unitsFrom_eq
        rw [hfp, hlay, countP_units]
      rw [hfile] at hlay
      exact ⟨us₁, us₂, rfl, hus, Or.inl ⟨e, rest, _, rfl, hnf, hlay⟩⟩
    · have hus : unitsFrom cfg (us₁ ++ us₂) p = us₂ := by
        apply unitsFrom_eq
        rw [hfp, hlay, he, List.countP_cons, countP_units]
        simp [fdeL]
      rw [hfile] at hlay he
      exact ⟨us₁, us₂, rfl, hus, Or.inr (by rw [hlay]; exact congrArg (· :: _) he)⟩

/-- the first two packets of a dump: the artificial ROTATE (skipped: the parser has no format yet, its position stays
    the one it was started with), then a FORMAT_DESCRIPTION event; then the laid-out events -/
theorem run_preamble (cfg : W.Cfg) (env : Env) (p : W.Pos) (fdeB : Bytes) (l : List W.Laid)
    (hl : 27 + p.file.length + (if cfg.crc then 4 else 0) < 2 ^ 32)
    (hfde : classify env (PState.init (posOf p)) fdeB = .format (fmtOf cfg))
    (hg : GoodH env { PState.init (posOf p) with format := fmtOf cfg } p l)
    (acc : Transaction → Bool) (e : Bool) (tail : List Input) (ht : EndsWith env e tail) (k : Nat) :
    parseEvents env acc (PState.init (posOf p))
        (((fakeRotBytes cfg 0 p.offset p.file :: fdeB :: l.map (·.bytes)).take k).map Input.event ++ tail)
      = specOut env.ext acc e (l.take (k - 2)) p := by
  have hfake := cl_fakeRot_first env (PState.init (posOf p)) cfg rfl 0 p.offset p.file hl
  match k with
  | 0 =>
    simp only [List.take_zero, List.map_nil, List.nil_append]
    exact goodH_zero rfl acc e tail ht
  | 1 =>
    simp only [List.take_succ_cons, List.take_zero, List.map_cons, List.map_nil, List.cons_append, List.nil_append,
      parseEvents, stepEvent, hfake, stepD]
    exact goodH_zero rfl acc e tail ht
  | k + 2 =>
    have := hg acc e tail ht k
    simp only [List.take_succ_cons, List.map_cons, List.cons_append, parseEvents, stepEvent, hfake, hfde, stepD,
      ← List.map_take, List.map_map, Nat.add_sub_cancel]
    exact this

/-- the outcome of ANY attempt started at p against the Spec master — any handler, any cut, any quiet ending — is the
    one the Spec computes from the tags of the events that arrived; GENERAL FORM: whatever is asked of the units served,
    as long as their layout from p's file, parsed from the state after the FORMAT_DESCRIPTION event, is `GoodH`
    (`outcome_lands` below and GV/Lemmas/C15d.lean instantiate it) -/
theorem outcome_lands_of (cfg : W.Cfg) (env : Env) (h : W.History) (p : W.Pos)
    (hlen : 27 + p.file.length + (if cfg.crc then 4 else 0) < 2 ^ 32)
    (hoff : ∀ e ∈ W.fromPos (W.layout cfg h) p, e.next < 2 ^ 32)
    (hl : Lands cfg h p)
    (hgood : ∀ o, Bnd (W.layoutAux cfg ((unitsFrom cfg h p).flatMap (W.unitEvs cfg)) p.file o) →
      GoodH env { PState.init (posOf p) with format := fmtOf cfg } p
        (W.layoutAux cfg ((unitsFrom cfg h p).flatMap (W.unitEvs cfg)) p.file o))
    (acc : Transaction → Bool) (e : Bool) (tail : List Input) (ht : EndsWith env e tail) (k : Nat) :
    parseEvents env acc (PState.init (posOf p)) (((W.serve cfg h p).take k).map Input.event ++ tail)
      = specOut env.ext acc e ((served cfg h p).take (k - preamble cfg h p)) p := by
  have hart := C01_classify_fde env (PState.init (posOf p)) cfg 4 (some 0) (by decide)
    (by intro n hn; cases hn; decide)
  have hreal := C01_classify_fde env (PState.init (posOf p)) cfg 4 none (by decide) (by simp)
  rcases served_shape cfg h p hl with hnil | ⟨us₁, us₂, hsplit, hus, hcase⟩
  · have hs := serve_nil cfg h p hnil
    have hpre : preamble cfg h p = 2 := by
      unfold preamble; rw [hs, hnil]; rfl
    rw [hpre, hs, hnil]
    exact run_preamble cfg env p _ [] hlen hart ((goodH_rules env).nil _ p rfl) acc e tail ht k
  · rw [hus] at hgood
    rcases hcase with ⟨x, rest, o, hfp, hnf, hlay⟩ | hlay
    · have hs := serve_unit cfg h p x rest hfp hnf
      have hpre : preamble cfg h p = 2 := by
        unfold preamble; rw [hs, hfp]; simp
      change ∀ y ∈ served cfg h p, y.next < 2 ^ 32 at hoff
      rw [hpre, hs, ← hfp]
      rw [hlay] at hoff ⊢
      exact run_preamble cfg env p _ _ hlen hart (hgood _ hoff) acc e tail ht k
    · have hs := serve_fileHead cfg h p _ _ hlay rfl
      have hpre : preamble cfg h p = 1 := by
        unfold preamble; rw [hs, hlay]; simp
      change ∀ y ∈ served cfg h p, y.next < 2 ^ 32 at hoff
      rw [hlay] at hoff
      have hb2 := (bnd_cons hoff).2
      have hg := hgood _ hb2
      have hbytes : (fdeL cfg p.file).bytes = (W.fdeEvent cfg 4 none).1 := rfl
      rw [hpre, hs, hlay, hbytes]
      have key := run_preamble cfg env p _ _ hlen hreal hg acc e tail ht
      match k with
      | 0 => exact key 0
      | 1 =>
        have := key 1
        simpa using this
      | k + 2 =>
        have := key (k + 2)
        rw [this]
        simp [specOut, fdeL]

/-- … for `WFFrom`: an id names one table among the units served, announcements counted from p (`goodH_units`) -/
theorem outcome_lands (cfg : W.Cfg) (env : Env) (h : W.History) (p : W.Pos) (hwf : WFFrom cfg h p)
    (hl : Lands cfg h p) (hm : MapperAgrees env (unitsFrom cfg h p))
    (acc : Transaction → Bool) (e : Bool) (tail : List Input) (ht : EndsWith env e tail) (k : Nat) :
    parseEvents env acc (PState.init (posOf p)) (((W.serve cfg h p).take k).map Input.event ++ tail)
      = specOut env.ext acc e ((served cfg h p).take (k - preamble cfg h p)) p :=
  outcome_lands_of cfg env h p hwf.fileLen hwf.offsets hl
    (fun o hb => goodH_units cfg env _ p o hwf.units hwf.tables hwf.announced hm hb) acc e tail ht k

/-! ### Spec side: the position kept after a consumed prefix is a position the master can serve from -/

/-- events that neither commit nor rotate: they leave the Spec's position alone -/
def Still (c : List W.Laid) : Prop := ∀ y ∈ c, (∀ cs, y.tag ≠ .commit cs) ∧ (∀ f, y.tag ≠ .rotateTo f)

theorem still_append : ∀ (c r : List W.Laid) (cur : W.Pos), Still c →
    W.expectedAux (c ++ r) cur = W.expectedAux r cur ∧ W.endPosAux (c ++ r) cur = W.endPosAux r cur
  | [], r, cur, _ => ⟨rfl, rfl⟩
  | x :: c, r, cur, hs => by
    obtain ⟨h1, h2⟩ := hs x List.mem_cons_self
    have ih := still_append c r cur (fun y hy => hs y (List.mem_cons_of_mem _ hy))
    rw [List.cons_append]
    cases hx : x.tag with
    | commit cs => exact absurd hx (h1 cs)
    | rotateTo f => exact absurd hx (h2 f)
    | none => simpa [W.expectedAux, W.endPosAux, hx] using ih
    | stopThenRotateTo f => simpa [W.expectedAux, W.endPosAux, hx] using ih
    | fileHead => simpa [W.expectedAux, W.endPosAux, hx] using ih

theorem still_self (c : List W.Laid) (cur : W.Pos) (hs : Still c) :
    W.expectedAux c cur = [] ∧ W.endPosAux c cur = cur := by
  have := still_append c [] cur hs
  simpa [W.expectedAux, W.endPosAux] using this

/-- the last event of a list that moves the Spec's position -/
theorem last_change : ∀ (c : List W.Laid), Still c ∨
    (∃ c1 x c2 cs, c = c1 ++ x :: c2 ∧ x.tag = .commit cs ∧ Still c2) ∨
    (∃ c1 x c2 f, c = c1 ++ x :: c2 ∧ x.tag = .rotateTo f ∧ Still c2)
  | [] => Or.inl (fun _ hy => by cases hy)
  | x :: c => by
    rcases last_change c with hs | ⟨c1, y, c2, cs, h1, h2, h3⟩ | ⟨c1, y, c2, f, h1, h2, h3⟩
    · cases hx : x.tag with
      | commit cs => exact Or.inr (Or.inl ⟨[], x, c, cs, rfl, hx, hs⟩)
      | rotateTo f => exact Or.inr (Or.inr ⟨[], x, c, f, rfl, hx, hs⟩)
      | none =>
        left; intro y hy
        rcases List.mem_cons.mp hy with rfl | hy
        · simp [hx]
        · exact hs y hy
      | stopThenRotateTo f =>
        left; intro y hy
        rcases List.mem_cons.mp hy with rfl | hy
        · simp [hx]
        · exact hs y hy
      | fileHead =>
        left; intro y hy
        rcases List.mem_cons.mp hy with rfl | hy
        · simp [hx]
        · exact hs y hy
    · exact Or.inr (Or.inl ⟨x :: c1, y, c2, cs, by rw [h1]; rfl, h2, h3⟩)
    · exact Or.inr (Or.inr ⟨x :: c1, y, c2, f, by rw [h1]; rfl, h2, h3⟩)

theorem endPosAux_rotate : ∀ (pre : List W.Laid) (e : W.Laid) (rest : List W.Laid) (f : Bytes) (cur : W.Pos),
    e.tag = .rotateTo f → W.endPosAux (pre ++ e :: rest) cur = W.endPosAux rest ⟨f, 4⟩
  | [], e, rest, f, cur, ht => by simp [W.endPosAux, ht]
  | x :: pre, e, rest, f, cur, ht => by
    rw [List.cons_append]
    cases hx : x.tag <;> simp only [W.endPosAux, hx] <;> exact endPosAux_rotate pre e rest f _ ht

theorem laidTag_rot {t : W.Tag} {g : Bytes} (h : laidTag t = .rotateTo g) : rotOf t = some g := by
  cases t <;> simp [laidTag, rotOf] at h ⊢
  exact h

/-- an event that makes the Spec move on to file g is followed — at once, or after the artificial ROTATE naming g — by
    the FORMAT_DESCRIPTION event at the head of g -/
theorem after_rotate (cfg : W.Cfg) : ∀ (es : List W.AEv) (f : Bytes) (o : Nat) (pre : List W.Laid) (x : W.Laid)
    (B : List W.Laid) (g : Bytes), W.layoutAux cfg es f o = pre ++ x :: B → x.tag = .rotateTo g →
    (∃ B', B = fdeL cfg g :: B') ∨ (∃ y B', B = y :: fdeL cfg g :: B' ∧ y.tag = .rotateTo g)
  | [], f, o, pre, x, B, g, hl, _ => by simp [W.layoutAux] at hl
  | a :: es, f, o, pre, x, B, g, hl, ht => by
    cases hr : rotOf a.tag with
    | none =>
      rw [layoutAux_plain _ _ _ _ _ hr] at hl
      cases pre with
      | nil =>
        simp only [List.nil_append, List.cons.injEq] at hl
        rw [← hl.1] at ht
        have := laidTag_rot (t := a.tag) ht
        rw [hr] at this; cases this
      | cons y pre' =>
        simp only [List.cons_append, List.cons.injEq] at hl
        exact after_rotate cfg es f _ pre' x B g hl.2 ht
    | some g' =>
      rw [layoutAux_rot _ _ _ _ _ g' hr] at hl
      match pre, hl with
      | [], hl =>
        simp only [List.nil_append, List.cons.injEq] at hl
        rw [← hl.1] at ht
        have := laidTag_rot (t := a.tag) ht
        rw [hr] at this
        cases this
        exact Or.inr ⟨_, _, hl.2.symm, rfl⟩
      | [y], hl =>
        simp only [List.cons_append, List.nil_append, List.cons.injEq] at hl
        rw [← hl.2.1] at ht
        simp only [fakeR, W.Tag.rotateTo.injEq] at ht
        subst ht
        exact Or.inl ⟨_, hl.2.2.symm⟩
      | [y, y2], hl =>
        simp only [List.cons_append, List.nil_append, List.cons.injEq] at hl
        rw [← hl.2.2.1] at ht
        simp [fdeL] at ht
      | y :: y2 :: y3 :: pre', hl =>
        simp only [List.cons_append, List.cons.injEq] at hl
        exact after_rotate cfg es g' _ pre' x B g hl.2.2.2 ht

theorem layout_after_rotate (cfg : W.Cfg) (h : W.History) (pre : List W.Laid) (x : W.Laid) (B : List W.Laid)
    (g : Bytes) (hl : W.layout cfg h = pre ++ x :: B) (ht : x.tag = .rotateTo g) :
    (∃ B', B = fdeL cfg g :: B') ∨ (∃ y B', B = y :: fdeL cfg g :: B' ∧ y.tag = .rotateTo g) := by
  rw [layout_eq'] at hl
  cases pre with
  | nil =>
    simp only [List.nil_append, List.cons.injEq] at hl
    rw [← hl.1] at ht
    simp [fdeL] at ht
  | cons y pre' =>
    simp only [List.cons_append, List.cons.injEq] at hl
    exact after_rotate cfg _ _ _ pre' x B g hl.2 ht

/-- a unit is events without a meaning for delivery, then one last event -/
theorem unit_last (cfg : W.Cfg) (u : W.Unit) :
    ∃ init z, W.unitEvs cfg u = init ++ [z] ∧ ∀ x ∈ init, x.tag = .none := by
  cases u with
  | tx b cs close ts =>
    refine ⟨{ W.stmtEv ⟨b, [], ts, [], 0, none⟩ .none with unitStart := true } :: cs.flatMap (W.changeEvs cfg),
      (match close with
        | .xid n => ⟨16, W.xidBody n, ts, .commit cs, false⟩
        | .commit sql => W.stmtEv ⟨sql, [], ts, [], 0, none⟩ (.commit cs)
        | .rollback sql => W.stmtEv ⟨sql, [], ts, [], 0, none⟩ (.commit [])), ?_, ?_⟩
    · cases close <;> simp [W.unitEvs, W.markStart]
    · intro x hx
      rcases List.mem_cons.mp hx with rfl | hx
      · rfl
      · obtain ⟨c, _, hc⟩ := List.mem_flatMap.mp hx
        cases c with
        | stmt s =>
          simp only [W.changeEvs, List.mem_cons, List.not_mem_nil, or_false] at hc
          subst hc; rfl
        | rows c =>
          simp only [W.changeEvs, List.mem_append, List.mem_cons, List.not_mem_nil, or_false] at hc
          rcases hc with hc | rfl
          · split at hc
            · simp only [List.mem_cons, List.not_mem_nil, or_false] at hc
              subst hc; rfl
            · cases hc
          · rfl
  | ddl s => exact ⟨[], _, rfl, by intro x hx; cases hx⟩
  | stmtDML s => exact ⟨[], _, rfl, by intro x hx; cases hx⟩
  | autoRows c =>
    cases ha : c.announce with
    | true =>
      refine ⟨[{ W.tableMapEv cfg c with unitStart := true }], W.rowsEv cfg c (.commit [.rows c]), ?_, ?_⟩
      · simp [W.unitEvs, ha, W.markStart]
      · intro x hx
        simp only [List.mem_cons, List.not_mem_nil, or_false] at hx
        subst hx; rfl
    | false =>
      refine ⟨[], { W.rowsEv cfg c (.commit [.rows c]) with unitStart := true }, ?_, by intro x hx; cases hx⟩
      simp [W.unitEvs, ha, W.markStart]
  | rotate f => exact ⟨[], _, rfl, by intro x hx; cases hx⟩
  | restart f => exact ⟨[], _, rfl, by intro x hx; cases hx⟩
  | gtid sid gno => exact ⟨[], _, rfl, by intro x hx; cases hx⟩
  | anonGtid => exact ⟨[], _, rfl, by intro x hx; cases hx⟩
  | prevGtids b => exact ⟨[], _, rfl, by intro x hx; cases hx⟩
  | heartbeat => exact ⟨[], _, rfl, by intro x hx; cases hx⟩
  | unknownEvent t b => exact ⟨[], _, rfl, by intro x hx; cases hx⟩
  | unknownStmt s => exact ⟨[], _, rfl, by intro x hx; cases hx⟩

theorem layoutAux_tags_none (cfg : W.Cfg) : ∀ (init : List W.AEv) (f : Bytes) (o : Nat), (∀ x ∈ init, x.tag = .none) →
    ∀ y ∈ W.layoutAux cfg init f o, y.tag = .none
  | [], f, o, _ => by simp [W.layoutAux]
  | a :: init, f, o, h => by
    have ha := h a List.mem_cons_self
    have hr : rotOf a.tag = none := by rw [ha]; rfl
    rw [layoutAux_plain _ _ _ _ _ hr]
    intro y hy
    rcases List.mem_cons.mp hy with rfl | hy
    · simp [hereOf, ha, laidTag]
    · exact layoutAux_tags_none cfg init f _ (fun x hx => h x (List.mem_cons_of_mem _ hx)) y hy

/-- the event laid out after a commit point is the first event of a unit -/
theorem after_commit_start (cfg : W.Cfg) : ∀ (us : List W.Unit) (f : Bytes) (o : Nat) (pre : List W.Laid)
    (e e' : W.Laid) (rest : List W.Laid) (cs : List W.Change),
    W.layoutAux cfg (us.flatMap (W.unitEvs cfg)) f o = pre ++ e :: e' :: rest → e.tag = .commit cs →
    e'.unitStart = true
  | [], f, o, pre, e, e', rest, cs, hl, _ => by simp [W.layoutAux] at hl
  | u :: us, f, o, pre, e, e', rest, cs, hl, ht => by
    obtain ⟨init, z, hsh, hin⟩ := unit_last cfg u
    rw [List.flatMap_cons, hsh, List.append_assoc, layoutAux_append] at hl
    have hnone := layoutAux_tags_none cfg init f o hin
    obtain ⟨pre', hl'⟩ := skip_prefix (fun y : W.Laid => ∃ cs, y.tag = .commit cs) _ _ pre e (e' :: rest) hl
      (fun y hy hq => by obtain ⟨cs', hq⟩ := hq; rw [hnone y hy] at hq; cases hq) ⟨cs, ht⟩
    simp only [List.cons_append, List.nil_append] at hl'
    -- the units after u start with a unit start
    have next : ∀ f' o', W.layoutAux cfg (us.flatMap (W.unitEvs cfg)) f' o' = e' :: rest → e'.unitStart = true := by
      intro f' o' hn
      cases us with
      | nil => simp [W.layoutAux] at hn
      | cons u' us' =>
        obtain ⟨e0, rest0, h0, _, _, h3⟩ := layoutAux_units_cons cfg u' us' f' o'
        rw [h0] at hn
        rw [← (List.cons.inj hn).1]; exact h3
    cases hr : rotOf z.tag with
    | none =>
      rw [layoutAux_plain _ _ _ _ _ hr] at hl'
      cases pre' with
      | nil =>
        simp only [List.nil_append, List.cons.injEq] at hl'
        exact next _ _ hl'.2
      | cons y pre'' =>
        simp only [List.cons_append, List.cons.injEq] at hl'
        exact after_commit_start cfg us _ _ pre'' e e' rest cs hl'.2 ht
    | some g =>
      rw [layoutAux_rot _ _ _ _ _ g hr] at hl'
      match pre', hl' with
      | [], hl' =>
        simp only [List.nil_append, List.cons.injEq] at hl'
        rw [← hl'.1] at ht
        exact absurd ht (laidTag_rot_not_commit hr cs)
      | [y], hl' =>
        simp only [List.cons_append, List.nil_append, List.cons.injEq] at hl'
        rw [← hl'.2.1] at ht
        simp [fakeR] at ht
      | [y, y2], hl' =>
        simp only [List.cons_append, List.nil_append, List.cons.injEq] at hl'
        rw [← hl'.2.2.1] at ht
        simp [fdeL] at ht
      | y :: y2 :: y3 :: pre'', hl' =>
        simp only [List.cons_append, List.cons.injEq] at hl'
        exact after_commit_start cfg us _ _ pre'' e e' rest cs hl'.2.2.2 ht

theorem layout_after_commit_start (cfg : W.Cfg) (h : W.History) (pre : List W.Laid) (e e' : W.Laid)
    (rest : List W.Laid) (cs : List W.Change) (hl : W.layout cfg h = pre ++ e :: e' :: rest)
    (ht : e.tag = .commit cs) : e'.unitStart = true := by
  rw [layout_eq'] at hl
  cases pre with
  | nil =>
    simp only [List.nil_append, List.cons.injEq] at hl
    rw [← hl.1] at ht
    simp [fdeL] at ht
  | cons y pre' =>
    simp only [List.cons_append, List.cons.injEq] at hl
    exact after_commit_start cfg h _ _ pre' e e' rest cs hl.2 ht

/-- the file an event rotates to is one of the rotation targets -/
theorem rot_tag_mem (cfg : W.Cfg) : ∀ (es : List W.AEv) (f : Bytes) (o : Nat) (x : W.Laid) (g : Bytes),
    x ∈ W.layoutAux cfg es f o → x.tag = .rotateTo g → g ∈ tgts es
  | [], f, o, x, g, hx, _ => by simp [W.layoutAux] at hx
  | a :: es, f, o, x, g, hx, ht => by
    cases hr : rotOf a.tag with
    | none =>
      rw [layoutAux_plain _ _ _ _ _ hr] at hx
      rcases List.mem_cons.mp hx with rfl | hx
      · have := laidTag_rot (t := a.tag) ht
        rw [hr] at this; cases this
      · simpa [tgts, hr] using rot_tag_mem cfg es f _ x g hx ht
    | some g' =>
      rw [layoutAux_rot _ _ _ _ _ g' hr] at hx
      simp only [List.mem_cons] at hx
      rcases hx with rfl | rfl | rfl | hx
      · have := laidTag_rot (t := a.tag) ht
        rw [hr] at this; cases this
        simp [tgts, hr]
      · simp only [fakeR, W.Tag.rotateTo.injEq] at ht
        subst ht; simp [tgts, hr]
      · simp [fdeL] at ht
      · simp only [tgts, hr]
        exact List.mem_cons_of_mem _ (rot_tag_mem cfg es g' _ x g hx ht)

theorem lands_iff (cfg : W.Cfg) (h : W.History) (p : W.Pos) :
    Lands cfg h p ↔ (served cfg h p = [] ∨
      ∃ e rest, served cfg h p = e :: rest ∧ (e.unitStart = true ∨ e.tag = .fileHead)) := by
  unfold Lands served
  cases W.fromPos (W.layout cfg h) p with
  | nil => simp
  | cons e rest => simp

/-- the position kept after any consumed prefix of what is served from p: the master serves from it a suffix of what
    it serves from p, with the same expected transactions and end position as the events not yet consumed, and starts
    at a unit or at a file head again -/
theorem resume_point (cfg : W.Cfg) (h : W.History) (hf : FreshLog h) (p : W.Pos) (m : Nat) :
    served cfg h (W.endPosAux ((served cfg h p).take m) p) <:+ served cfg h p ∧
    W.expectedAux (served cfg h (W.endPosAux ((served cfg h p).take m) p)) (W.endPosAux ((served cfg h p).take m) p)
      = W.expectedAux ((served cfg h p).drop m) (W.endPosAux ((served cfg h p).take m) p) ∧
    W.endPosAux (served cfg h (W.endPosAux ((served cfg h p).take m) p)) (W.endPosAux ((served cfg h p).take m) p)
      = W.endPosAux ((served cfg h p).drop m) (W.endPosAux ((served cfg h p).take m) p) ∧
    (Lands cfg h p → Lands cfg h (W.endPosAux ((served cfg h p).take m) p)) ∧
    (W.endPosAux ((served cfg h p).take m) p = p ∨
      (∃ x ∈ served cfg h p, (W.endPosAux ((served cfg h p).take m) p).file = x.file) ∨
      (∃ x ∈ served cfg h p, ∃ g, x.tag = .rotateTo g ∧ (W.endPosAux ((served cfg h p).take m) p).file = g)) := by
  obtain ⟨pre, hpre⟩ := served_suffix cfg h p
  generalize hl : served cfg h p = l at hpre ⊢
  have htd := List.take_append_drop m l
  generalize hdr : l.drop m = dr at htd ⊢
  generalize htk : l.take m = tk at htd ⊢
  rcases last_change tk with hs | ⟨c1, x, c2, cs, h1, h2, h3⟩ | ⟨c1, x, c2, g, h1, h2, h3⟩
  · have hq : W.endPosAux tk p = p := (still_self _ p hs).2
    rw [hq, hl]
    have := still_append tk dr p hs
    rw [htd] at this
    exact ⟨List.suffix_refl _, this.1, this.2, id, Or.inl rfl⟩
  · have hq : W.endPosAux tk p = ⟨x.file, x.next⟩ := by
      rw [h1, endPosAux_commit c1 x c2 cs p h2]
      exact (still_self c2 _ h3).2
    have hl2 : l = c1 ++ x :: (c2 ++ dr) := by
      rw [← htd, h1]; simp
    have hlay : W.layout cfg h = (pre ++ c1) ++ x :: (c2 ++ dr) := by
      rw [hpre, hl2]; simp
    have hfp : served cfg h ⟨x.file, x.next⟩ = c2 ++ dr :=
      fromPos_after_commit cfg h _ x _ cs hlay h2 (hf x.file)
    rw [hq, hfp]
    have hst := still_append c2 dr ⟨x.file, x.next⟩ h3
    refine ⟨⟨c1 ++ [x], by rw [hl2]; simp⟩, hst.1, hst.2, ?_, Or.inr (Or.inl ⟨x, by rw [hl2]; simp, rfl⟩)⟩
    intro _
    rw [lands_iff, hfp]
    cases hc : c2 ++ dr with
    | nil => exact Or.inl rfl
    | cons e' rest' =>
      rw [hc] at hlay
      exact Or.inr ⟨e', rest', rfl, Or.inl (layout_after_commit_start cfg h _ x e' rest' cs hlay h2)⟩
  · have hq : W.endPosAux tk p = ⟨g, 4⟩ := by
      rw [h1, endPosAux_rotate c1 x c2 g p h2]
      exact (still_self c2 _ h3).2
    have hl2 : l = c1 ++ x :: (c2 ++ dr) := by
      rw [← htd, h1]; simp
    have hlay : W.layout cfg h = (pre ++ c1) ++ x :: (c2 ++ dr) := by
      rw [hpre, hl2]; simp
    have hst := still_append c2 dr ⟨g, 4⟩ h3
    rw [hq]
    have hmem : ∃ y ∈ l, ∃ g', y.tag = .rotateTo g' ∧ (⟨g, 4⟩ : W.Pos).file = g' :=
      ⟨x, by rw [hl2]; simp, g, h2, rfl⟩
    rcases layout_after_rotate cfg h _ x _ g hlay h2 with ⟨B', hB⟩ | ⟨y, B', hB, hy⟩
    · rw [hB] at hlay
      have hlay' : W.layout cfg h = ((pre ++ c1) ++ [x]) ++ fdeL cfg g :: B' := by rw [hlay]; simp
      have hfp : served cfg h ⟨g, 4⟩ = fdeL cfg g :: B' := fromPos_at cfg h _ (fdeL cfg g) B' hlay' (hf _)
      rw [hfp, ← hB]
      refine ⟨⟨c1 ++ [x], by rw [hl2]; simp⟩, hst.1, hst.2, ?_, Or.inr (Or.inr hmem)⟩
      intro _
      rw [lands_iff, hfp]
      exact Or.inr ⟨_, _, rfl, Or.inr rfl⟩
    · have hc2 : c2 = [] := by
        cases c2 with
        | nil => rfl
        | cons z c2' =>
          simp only [List.cons_append, List.cons.injEq] at hB
          exact absurd (hB.1 ▸ hy) ((h3 z List.mem_cons_self).2 g)
      subst hc2
      simp only [List.nil_append] at hB hlay hl2 hst
      rw [hB] at hlay
      have hlay' : W.layout cfg h = ((pre ++ c1) ++ [x, y]) ++ fdeL cfg g :: B' := by rw [hlay]; simp
      have hfp : served cfg h ⟨g, 4⟩ = fdeL cfg g :: B' := fromPos_at cfg h _ (fdeL cfg g) B' hlay' (hf _)
      rw [hfp, hB]
      refine ⟨⟨c1 ++ [x, y], by rw [hl2, hB]; simp⟩, by simp [W.expectedAux, hy], by simp [W.endPosAux, hy], ?_,
        Or.inr (Or.inr hmem)⟩
      intro _
      rw [lands_iff, hfp]
      exact Or.inr ⟨_, _, rfl, Or.inr rfl⟩

/-! ### the hypotheses carry over to the kept position -/

theorem annOK_append : ∀ (a b : List W.RowsChange) (k : List Nat), annOK k a → annOK [] b → annOK k (a ++ b)
  | [], b, k, _, hb => annOK_mono b [] k (fun x hx => by cases hx) hb
  | _ :: a, b, _, ha, hb => ⟨ha.1, annOK_append a b _ ha.2 hb⟩

/-- announcements within every unit give the announcements of C01d from ANY start, in particular with an empty cache -/
theorem annOK_self : ∀ (us : List W.Unit), SelfAnnounced us → annOK [] (histRows us)
  | [], _ => trivial
  | u :: us, h => by
    rw [histRows_cons]
    exact annOK_append _ _ [] (h u List.mem_cons_self)
      (annOK_self us (fun x hx => h x (List.mem_cons_of_mem _ hx)))

theorem unitsFrom_suffix (cfg : W.Cfg) (h : W.History) (p q : W.Pos) (hs : served cfg h q <:+ served cfg h p) :
    unitsFrom cfg h q <:+ unitsFrom cfg h p := by
  unfold unitsFrom
  have hc : (W.fromPos (W.layout cfg h) q).countP (·.unitStart) ≤ (W.fromPos (W.layout cfg h) p).countP (·.unitStart) :=
    hs.sublist.countP_le
  generalize (W.fromPos (W.layout cfg h) q).countP (·.unitStart) = a at hc
  generalize (W.fromPos (W.layout cfg h) p).countP (·.unitStart) = b at hc
  have : h.drop (h.length - a) = (h.drop (h.length - b)).drop ((h.length - a) - (h.length - b)) := by
    rw [List.drop_drop]; congr 1; omega
  rw [this]
  exact List.drop_suffix _ _

/-- every file named by what is served from p is short enough for the artificial ROTATE naming it -/
theorem served_files_short_of (cfg : W.Cfg) (h : W.History) (p : W.Pos) (hl : Lands cfg h p)
    (hlen : 27 + p.file.length + (if cfg.crc then 4 else 0) < 2 ^ 32)
    (hu : ∀ u ∈ unitsFrom cfg h p, UnitOK cfg u)
    (hoff : ∀ e ∈ W.fromPos (W.layout cfg h) p, e.next < 2 ^ 32) :
    (∀ x ∈ served cfg h p, 27 + x.file.length + (if cfg.crc then 4 else 0) < 2 ^ 32) ∧
    (∀ x ∈ served cfg h p, ∀ g, x.tag = .rotateTo g → 27 + g.length + (if cfg.crc then 4 else 0) < 2 ^ 32) := by
  change ∀ y ∈ served cfg h p, y.next < 2 ^ 32 at hoff
  rcases served_shape cfg h p hl with hnil | ⟨us₁, us₂, _, hus, hcase⟩
  · rw [hnil]; exact ⟨fun x hx => absurd hx List.not_mem_nil, fun x hx => absurd hx List.not_mem_nil⟩
  · rw [hus] at hu
    -- the events of the layout of us₂ at p's file
    have key : ∀ o, Bnd (W.layoutAux cfg (us₂.flatMap (W.unitEvs cfg)) p.file o) →
        (∀ x ∈ W.layoutAux cfg (us₂.flatMap (W.unitEvs cfg)) p.file o,
          27 + x.file.length + (if cfg.crc then 4 else 0) < 2 ^ 32) ∧
        (∀ x ∈ W.layoutAux cfg (us₂.flatMap (W.unitEvs cfg)) p.file o, ∀ g, x.tag = .rotateTo g →
          27 + g.length + (if cfg.crc then 4 else 0) < 2 ^ 32) := by
      intro o hb
      have hst := short_targets cfg us₂ p.file o hu hb
      refine ⟨?_, ?_⟩
      · intro x hx
        rcases mem_layoutAux cfg _ _ _ x hx with ⟨h1, _⟩ | h1
        · rw [h1]; exact hlen
        · rw [tgts_units] at h1; exact hst _ h1
      · intro x hx g hg
        have := rot_tag_mem cfg _ _ _ x g hx hg
        rw [tgts_units] at this
        exact hst _ this
    rcases hcase with ⟨x, rest, o, _, _, hlay⟩ | hlay
    · rw [hlay] at hoff ⊢
      exact key o hoff
    · rw [hlay] at hoff ⊢
      obtain ⟨k1, k2⟩ := key _ (bnd_cons hoff).2
      refine ⟨?_, ?_⟩
      · intro x hx
        rcases List.mem_cons.mp hx with rfl | hx
        · exact hlen
        · exact k1 x hx
      · intro x hx g hg
        rcases List.mem_cons.mp hx with rfl | hx
        · simp [fdeL] at hg
        · exact k2 x hx g hg

/-- … from `WFFrom` -/
theorem served_files_short (cfg : W.Cfg) (h : W.History) (p : W.Pos) (hl : Lands cfg h p) (hwf : WFFrom cfg h p) :
    (∀ x ∈ served cfg h p, 27 + x.file.length + (if cfg.crc then 4 else 0) < 2 ^ 32) ∧
    (∀ x ∈ served cfg h p, ∀ g, x.tag = .rotateTo g → 27 + g.length + (if cfg.crc then 4 else 0) < 2 ^ 32) :=
  served_files_short_of cfg h p hl hwf.fileLen hwf.units hwf.offsets

/-- the Spec position after the first m events served from p -/
def keptPos (cfg : W.Cfg) (h : W.History) (p : W.Pos) (m : Nat) : W.Pos := W.endPosAux ((served cfg h p).take m) p

/-- the number of commit points among the first m events served from p -/
def doneCount (cfg : W.Cfg) (h : W.History) (p : W.Pos) (m : Nat) : Nat :=
  (W.expectedAux ((served cfg h p).take m) p).length

theorem expected_split (cfg : W.Cfg) (h : W.History) (p : W.Pos) (m : Nat) :
    W.expectedAux ((served cfg h p).take m) p = (W.expected cfg h p).take (doneCount cfg h p m) ∧
    W.expectedAux ((served cfg h p).drop m) (keptPos cfg h p m) = (W.expected cfg h p).drop (doneCount cfg h p m) ∧
    W.endPosAux ((served cfg h p).drop m) (keptPos cfg h p m) = W.endPos cfg h p :=
  expectedAux_take (served cfg h p) m p

/-- the position kept after ANY consumed prefix is a position the next attempt can start from, and what is expected
    from it is exactly what was not yet delivered -/
theorem resumable_next (cfg : W.Cfg) (env : Env) (h : W.History) (p : W.Pos) (hr : Resumable cfg env h p) (m : Nat) :
    Resumable cfg env h (keptPos cfg h p m) ∧
    W.expected cfg h (keptPos cfg h p m) = (W.expected cfg h p).drop (doneCount cfg h p m) ∧
    W.endPos cfg h (keptPos cfg h p m) = W.endPos cfg h p := by
  obtain ⟨hsuf, hexp, hend, hlands, hfile⟩ := resume_point cfg h hr.fresh p m
  obtain ⟨hs1, hs2, hs3⟩ := expected_split cfg h p m
  obtain ⟨hf1, hf2⟩ := served_files_short cfg h p hr.lands hr.wf
  change served cfg h (keptPos cfg h p m) <:+ served cfg h p at hsuf
  change W.expected cfg h (keptPos cfg h p m) = _ at hexp
  change W.endPos cfg h (keptPos cfg h p m) = _ at hend
  change (_ → Lands cfg h (keptPos cfg h p m)) at hlands
  change (keptPos cfg h p m = p ∨ (∃ x ∈ served cfg h p, (keptPos cfg h p m).file = x.file) ∨
      (∃ x ∈ served cfg h p, ∃ g, x.tag = .rotateTo g ∧ (keptPos cfg h p m).file = g)) at hfile
  have hus := unitsFrom_suffix cfg h p _ hsuf
  have hsub : ∀ u ∈ unitsFrom cfg h (keptPos cfg h p m), u ∈ unitsFrom cfg h p := fun u hu => hus.subset hu
  have hrows : ∀ c ∈ histRows (unitsFrom cfg h (keptPos cfg h p m)), c ∈ histRows (unitsFrom cfg h p) := by
    intro c hc
    unfold histRows at hc ⊢
    obtain ⟨u, hu, hcu⟩ := List.mem_flatMap.mp hc
    exact List.mem_flatMap.mpr ⟨u, hsub u hu, hcu⟩
  have hsa : SelfAnnounced (unitsFrom cfg h (keptPos cfg h p m)) := fun u hu => hr.selfAnn u (hsub u hu)
  refine ⟨⟨hlands hr.lands, ⟨?_, fun u hu => hr.wf.units u (hsub u hu),
      fun c1 h1 c2 h2 => hr.wf.tables c1 (hrows c1 h1) c2 (hrows c2 h2), annOK_self _ hsa,
      fun e he => hr.wf.offsets e (hsuf.subset he)⟩, hsa, hr.fresh, fun c hc => hr.mapper c (hrows c hc)⟩,
    hexp.trans hs2, hend.trans hs3⟩
  rcases hfile with hq | ⟨x, hx, hq⟩ | ⟨x, hx, g, hg, hq⟩
  · rw [hq]; exact hr.wf.fileLen
  · rw [hq]; exact hf1 x hx
  · rw [hq]; exact hf2 x hx g hg

/-! ### one attempt, in terms of the expected transactions -/

/-- Whatever handler, cut and quiet ending: the attempt consumed without failure some prefix (the first m events) of
    what is served; it accepted exactly the transactions of that prefix, keeps the Spec position after it, did not
    crash, and either made no further call (then m is everything that arrived) or one more call — the next expected
    transaction, labelled with the kept position — which the handler rejected -/
theorem attempt_spec_of (cfg : W.Cfg) (E : Ext) (h : W.History) (p : W.Pos)
    (acc : Transaction → Bool) (e : Bool) (k : Nat) (o : Outcome)
    (ho : o = specOut E acc e ((served cfg h p).take (k - preamble cfg h p)) p) :
    ∃ m, m ≤ min (k - preamble cfg h p) (served cfg h p).length ∧
      o.accepted = ((W.expected cfg h p).take (doneCount cfg h p m)).map (toTx E) ∧
      o.pos = posOf (keptPos cfg h p m) ∧
      o.crash = false ∧
      ((o.calls = o.accepted ∧ o.err = e ∧ m = min (k - preamble cfg h p) (served cfg h p).length) ∨
       (∃ t, (W.expected cfg h p)[doneCount cfg h p m]? = some t ∧ t.now = keptPos cfg h p m ∧
          acc (toTx E t) = false ∧ o.calls = o.accepted ++ [toTx E t] ∧ o.err = true)) := by
  subst ho
  generalize hk : k - preamble cfg h p = k'
  obtain ⟨m, hm1, h1, h2, h3, h4⟩ := specOut_spec E acc e ((served cfg h p).take k') p
  have hlen : ((served cfg h p).take k').length = min k' (served cfg h p).length := List.length_take
  rw [hlen] at hm1 h4
  have hmk : m ≤ k' := Nat.le_trans hm1 (Nat.min_le_left _ _)
  have htt : ((served cfg h p).take k').take m = (served cfg h p).take m := by
    rw [List.take_take, Nat.min_eq_left hmk]
  rw [htt] at h1 h2 h4
  obtain ⟨hs1, _, _⟩ := expected_split cfg h p m
  refine ⟨m, hm1, by rw [h1, hs1], h2, h3, ?_⟩
  rcases h4 with h4 | ⟨x, rest, cs, h5, h6, h7, h8, h9⟩
  · exact Or.inl h4
  · right
    -- the rejected event is the next event served
    have hd : (served cfg h p).drop m = x :: (rest ++ (served cfg h p).drop k') := by
      have := List.take_append_drop k' (served cfg h p)
      conv => lhs; rw [← this]
      rw [List.drop_append_of_le_length (by rw [hlen]; exact hm1), h5]
      rfl
    have hexp : W.expected cfg h p = W.expectedAux ((served cfg h p).take m) p ++
        ⟨keptPos cfg h p m, ⟨x.file, x.next⟩, x.ts, cs⟩ ::
          W.expectedAux (rest ++ (served cfg h p).drop k') ⟨x.file, x.next⟩ := by
      have := expectedAux_append ((served cfg h p).take m) ((served cfg h p).drop m) p
      rw [List.take_append_drop, hd] at this
      rw [show W.expected cfg h p = W.expectedAux (served cfg h p) p from rfl, this]
      simp [W.expectedAux, h6, keptPos]
    refine ⟨⟨keptPos cfg h p m, ⟨x.file, x.next⟩, x.ts, cs⟩, ?_, rfl, h7, h8, h9⟩
    rw [hexp]
    simp [doneCount]

/-- … for the attempt itself, under `WFFrom` (`outcome_lands`) -/
theorem attempt_spec (cfg : W.Cfg) (env : Env) (h : W.History) (p : W.Pos) (hwf : WFFrom cfg h p)
    (hl : Lands cfg h p) (hm : MapperAgrees env (unitsFrom cfg h p))
    (acc : Transaction → Bool) (e : Bool) (tail : List Input) (ht : EndsWith env e tail) (k : Nat)
    (o : Outcome)
    (ho : o = parseEvents env acc (PState.init (posOf p)) (((W.serve cfg h p).take k).map Input.event ++ tail)) :
    ∃ m, m ≤ min (k - preamble cfg h p) (served cfg h p).length ∧
      o.accepted = ((W.expected cfg h p).take (doneCount cfg h p m)).map (toTx env.ext) ∧
      o.pos = posOf (keptPos cfg h p m) ∧
      o.crash = false ∧
      ((o.calls = o.accepted ∧ o.err = e ∧ m = min (k - preamble cfg h p) (served cfg h p).length) ∨
       (∃ t, (W.expected cfg h p)[doneCount cfg h p m]? = some t ∧ t.now = keptPos cfg h p m ∧
          acc (toTx env.ext t) = false ∧ o.calls = o.accepted ++ [toTx env.ext t] ∧ o.err = true)) := by
  rw [outcome_lands cfg env h p hwf hl hm acc e tail ht k] at ho
  exact attempt_spec_of cfg env.ext h p acc e k o ho

/-! ### sequences of attempts -/

/-- along any sequence of attempts (each with a quiet ending): the accepted lists concatenate to a prefix of the
    expected transactions, and the position kept at the end is one a next attempt can start from, expecting exactly
    the rest -/
theorem attempts_prefix (cfg : W.Cfg) (env : Env) (h : W.History) : ∀ (p : W.Pos) (atts : List Attempt)
    (acc : List Transaction) (p' : W.Pos), Attempts cfg env h p atts acc p' → Resumable cfg env h p →
    (∀ a ∈ atts, ∃ e, EndsWith env e a.tail) →
    Resumable cfg env h p' ∧ ∃ n, acc = ((W.expected cfg h p).take n).map (toTx env.ext) ∧
      W.expected cfg h p' = (W.expected cfg h p).drop n ∧ W.endPos cfg h p' = W.endPos cfg h p := by
  intro p atts acc p' hatt
  induction hatt with
  | nil p => intro hr _; exact ⟨hr, 0, by simp⟩
  | cons a p q rest acc p' hq _ ih =>
    intro hr hends
    obtain ⟨e, he⟩ := hends a List.mem_cons_self
    obtain ⟨m, _, hacc, hpos, _, _⟩ := attempt_spec cfg env h p hr.wf hr.lands hr.mapper a.handler e a.tail he a.cut
      (runAttempt cfg env h a p) rfl
    have hqq : q = keptPos cfg h p m := posOf_inj (hq.symm.trans hpos)
    subst hqq
    obtain ⟨hr', hexp, hend⟩ := resumable_next cfg env h p hr m
    obtain ⟨hr'', n, h1, h2, h3⟩ := ih hr' (fun b hb => hends b (List.mem_cons_of_mem _ hb))
    refine ⟨hr'', doneCount cfg h p m + n, ?_, ?_, by rw [h3, hend]⟩
    · rw [hacc, h1, hexp, List.take_add, List.map_append]
    · rw [h2, hexp, List.drop_drop]

/-- any sequence of attempts with quiet endings can be run: the position kept is always one the master can serve from -/
theorem attempts_exist (cfg : W.Cfg) (env : Env) (h : W.History) : ∀ (atts : List Attempt) (p : W.Pos),
    Resumable cfg env h p → (∀ a ∈ atts, ∃ e, EndsWith env e a.tail) →
    ∃ acc p', Attempts cfg env h p atts acc p'
  | [], p, _, _ => ⟨[], p, .nil p⟩
  | a :: rest, p, hr, hends => by
    obtain ⟨e, he⟩ := hends a List.mem_cons_self
    obtain ⟨m, _, _, hpos, _, _⟩ := attempt_spec cfg env h p hr.wf hr.lands hr.mapper a.handler e a.tail he a.cut
      (runAttempt cfg env h a p) rfl
    obtain ⟨hr', _, _⟩ := resumable_next cfg env h p hr m
    obtain ⟨acc, p', hatt⟩ := attempts_exist cfg env h rest _ hr' (fun b hb => hends b (List.mem_cons_of_mem _ hb))
    exact ⟨_, p', .cons a p _ rest acc p' hpos hatt⟩

/-- the clean complete attempt from a resumable position -/
theorem clean_run (cfg : W.Cfg) (env : Env) (h : W.History) (p : W.Pos) (hr : Resumable cfg env h p) :
    runClean cfg env h p = ⟨(W.expected cfg h p).map (toTx env.ext), (W.expected cfg h p).map (toTx env.ext),
      posOf (W.endPos cfg h p), false, false⟩ :=
  resume_lands cfg env h p hr.wf hr.lands hr.mapper

end C04b
end GV
