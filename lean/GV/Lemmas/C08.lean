import GV.Model.Mem
/- helper lemmas for GV/Props/C08.lean -/
namespace GV
namespace C08
open GV.Mem GV.M

/-- `omega` does not look through the abbreviation `BufId` -/
local macro "bomega" : tactic => `(tactic| ((try unfold BufId at *); omega))

/-! ### the heap -/

theorem setBuf_ne (h : BufId → Bytes) (b : BufId) (v : Bytes) (x : BufId) (hx : x ≠ b) : setBuf h b v x = h x := by
  simp [setBuf, hx]

theorem setBuf_same (h : BufId → Bytes) (b : BufId) (v : Bytes) : setBuf h b v b = v := by
  simp [setBuf]

theorem run_nil (s : Sys) : run s [] = s := rfl
theorem run_cons (s : Sys) (op : Op) (rest : List Op) : run s (op :: rest) = run (step s op) rest := rfl

/-- `next` only grows -/
theorem step_next_le (s : Sys) (op : Op) : s.next ≤ (step s op).next := by
  cases op with
  | readPacket p => simp [step]
  | newEvent => simp [step]
  | deliverSub off len => simp only [step]; split <;> simp
  | deliverFresh v => simp [step]
  | deliverZeroTs sh => simp only [step]; split <;> simp
  | scribble i v =>
      simp only [step]
      split
      · split <;> simp
      · simp

/-- a library operation writes only the transport buffer or a buffer that did not exist before -/
theorem step_lib_heap (s : Sys) (op : Op) (hl : isLib op = true) (b : BufId) (hb : b ≠ transport)
    (hlt : b < s.next) : (step s op).heap b = s.heap b := by
  have hne : b ≠ s.next := by bomega
  cases op with
  | readPacket p => simp [step, setBuf_ne _ _ _ _ hb]
  | newEvent => simp [step, setBuf_ne _ _ _ _ hne]
  | deliverSub off len => simp only [step]; split <;> rfl
  | deliverFresh v => simp [step, setBuf_ne _ _ _ _ hne]
  | deliverZeroTs sh =>
      simp only [step]
      split
      · rfl
      · simp [setBuf_ne _ _ _ _ hne]
  | scribble i v => simp [isLib] at hl

theorem run_lib_heap (later : List Op) : ∀ (s : Sys), (∀ op ∈ later, isLib op = true) →
    ∀ b : BufId, b ≠ transport → b < s.next → (run s later).heap b = s.heap b := by
  induction later with
  | nil => intro s _ b _ _; rfl
  | cons op rest ih =>
      intro s hl b hb hlt
      rw [run_cons, ih (step s op) (fun o ho => hl o (List.mem_cons_of_mem _ ho)) b hb
        (Nat.lt_of_lt_of_le hlt (step_next_le s op))]
      exact step_lib_heap s op (hl op List.mem_cons_self) b hb hlt

/-! ### where delivered values live -/

/-- bookkeeping invariant of every reachable state -/
def Inv (s : Sys) : Prop :=
  2 ≤ s.next ∧ (∀ r ∈ s.delivered, r.buf ≠ transport ∧ r.buf < s.next) ∧
    (∀ e ∈ s.events, e ≠ transport ∧ e < s.next)

theorem inv_init : Inv init := by
  simp [Inv, init]

theorem inv_step (s : Sys) (op : Op) (h : Inv s) : Inv (step s op) := by
  obtain ⟨h2, hd, he⟩ := h
  cases op with
  | readPacket p => exact ⟨h2, hd, he⟩
  | newEvent =>
      refine ⟨by simp only [step]; bomega, ?_, ?_⟩
      · intro r hr
        have := hd r hr
        simp only [step]
        exact ⟨this.1, by bomega⟩
      · intro e hm
        simp only [step, List.mem_cons] at hm ⊢
        rcases hm with rfl | hm
        · exact ⟨by simp only [transport]; bomega, by (try simp only); bomega⟩
        · have := he e hm
          exact ⟨this.1, by bomega⟩
  | deliverSub off len =>
      simp only [step]
      split
      · rename_i e es heq
        refine ⟨h2, ?_, he⟩
        intro r hr
        simp only [List.mem_append, List.mem_singleton] at hr
        rcases hr with hr | rfl
        · exact hd r hr
        · exact he e (by rw [heq]; exact List.mem_cons_self)
      · exact ⟨h2, hd, he⟩
  | deliverFresh v =>
      refine ⟨by simp only [step]; bomega, ?_, ?_⟩
      · intro r hr
        simp only [step, List.mem_append, List.mem_singleton] at hr ⊢
        rcases hr with hr | rfl
        · have := hd r hr
          exact ⟨this.1, by bomega⟩
        · exact ⟨by simp only [transport]; bomega, by (try simp only); bomega⟩
      · intro e hm
        have := he e hm
        simp only [step]
        exact ⟨this.1, by bomega⟩
  | deliverZeroTs sh =>
      cases sh with
      | true =>
          refine ⟨h2, ?_, he⟩
          intro r hr
          simp only [step, ↓reduceIte, List.mem_append, List.mem_singleton] at hr ⊢
          rcases hr with hr | rfl
          · exact hd r hr
          · exact ⟨by simp [transport, zeroTsConst], by simp only [zeroTsConst]; bomega⟩
      | false =>
          refine ⟨by simp only [step, Bool.false_eq_true, ↓reduceIte]; bomega, ?_, ?_⟩
          · intro r hr
            simp only [step, Bool.false_eq_true, ↓reduceIte, List.mem_append, List.mem_singleton] at hr ⊢
            rcases hr with hr | rfl
            · have := hd r hr
              exact ⟨this.1, by bomega⟩
            · exact ⟨by simp only [transport]; bomega, by (try simp only); bomega⟩
          · intro e hm
            have := he e hm
            simp only [step, Bool.false_eq_true, ↓reduceIte]
            exact ⟨this.1, by bomega⟩
  | scribble i v =>
      simp only [step]
      split
      · split
        · exact ⟨h2, hd, he⟩
        · exact ⟨h2, hd, he⟩
      · exact ⟨h2, hd, he⟩

theorem inv_run (ops : List Op) : ∀ s : Sys, Inv s → Inv (run s ops) := by
  induction ops with
  | nil => intro s h; exact h
  | cons op rest ih => intro s h; exact ih _ (inv_step s op h)

/-! ### pairwise disjointness -/

theorem disjoint_symm {a b : Ref} (h : a.disjoint b) : b.disjoint a := by
  rcases h with h | h | h
  · exact Or.inl (Ne.symm h)
  · exact Or.inr (Or.inr h)
  · exact Or.inr (Or.inl h)

/-- the invariant of `C08_pairwise_disjoint` -/
def PInv (s : Sys) : Prop :=
  s.delivered.Pairwise Ref.disjoint ∧ (∀ r ∈ s.delivered, r.buf < s.next) ∧ (∀ e ∈ s.events, e < s.next)

theorem pinv_init : PInv init := by
  simp [PInv, init]

/-- appending a value in a fresh buffer -/
theorem pairwise_fresh (l : List Ref) (n off len : Nat) (hp : l.Pairwise Ref.disjoint) (hd : ∀ r ∈ l, r.buf < n) :
    (l ++ [(⟨n, off, len⟩ : Ref)]).Pairwise Ref.disjoint := by
  rw [List.pairwise_append]
  refine ⟨hp, List.pairwise_singleton _ _, ?_⟩
  intro a ha b hb
  simp only [List.mem_singleton] at hb
  subst hb
  have := hd a ha
  exact Or.inl (by simp only; bomega)

theorem pinv_run (ops : List Op) : ∀ s : Sys, PInv s → (∀ op ∈ ops, op ≠ .deliverZeroTs true) → SubsOK s ops →
    PInv (run s ops) := by
  induction ops with
  | nil => intro s h _ _; exact h
  | cons op rest ih =>
      intro s h hz hs
      obtain ⟨hp, hd, he⟩ := h
      have hz' : ∀ o ∈ rest, o ≠ .deliverZeroTs true := fun o ho => hz o (List.mem_cons_of_mem _ ho)
      rw [run_cons]
      cases op with
      | readPacket p =>
          simp only [SubsOK] at hs
          exact ih _ ⟨hp, hd, he⟩ hz' hs
      | newEvent =>
          simp only [SubsOK] at hs
          refine ih _ ⟨hp, ?_, ?_⟩ hz' hs
          · intro r hr
            have := hd r hr
            simp only [step]; bomega
          · intro e hm
            simp only [step, List.mem_cons] at hm ⊢
            rcases hm with rfl | hm
            · bomega
            · have := he e hm; bomega
      | deliverSub off len =>
          simp only [SubsOK] at hs
          obtain ⟨hs1, hs2⟩ := hs
          refine ih _ ?_ hz' hs2
          cases heq : s.events with
          | nil => rw [heq] at hs1; exact hs1.elim
          | cons e es =>
              rw [heq] at hs1
              have hstep : step s (.deliverSub off len) = { s with delivered := s.delivered ++ [⟨e, off, len⟩] } := by
                simp only [step, heq]
              rw [hstep]
              refine ⟨?_, ?_, he⟩
              · rw [List.pairwise_append]
                refine ⟨hp, List.pairwise_singleton _ _, ?_⟩
                intro a ha b hb
                simp only [List.mem_singleton] at hb
                subst hb
                by_cases hb : a.buf = e
                · exact Or.inr (hs1.2 a ha hb)
                · exact Or.inl hb
              · intro r hr
                simp only [List.mem_append, List.mem_singleton] at hr
                rcases hr with hr | rfl
                · exact hd r hr
                · exact he e (by rw [heq]; exact List.mem_cons_self)
      | deliverFresh v =>
          simp only [SubsOK] at hs
          refine ih _ ⟨pairwise_fresh _ _ _ _ hp hd, ?_, ?_⟩ hz' hs
          · intro r hr
            simp only [step, List.mem_append, List.mem_singleton] at hr ⊢
            rcases hr with hr | rfl
            · have := hd r hr; bomega
            · simp only; bomega
          · intro e hm
            have := he e hm
            simp only [step]; bomega
      | deliverZeroTs sh =>
          cases sh with
          | true => exact absurd rfl (hz _ List.mem_cons_self)
          | false =>
              simp only [SubsOK] at hs
              refine ih _ ?_ hz' hs
              simp only [step, Bool.false_eq_true, ↓reduceIte]
              refine ⟨pairwise_fresh _ _ _ _ hp hd, ?_, ?_⟩
              · intro r hr
                simp only [List.mem_append, List.mem_singleton] at hr ⊢
                rcases hr with hr | rfl
                · have := hd r hr; bomega
                · simp only; bomega
              · intro e hm
                have := he e hm
                show e < s.next + 1
                bomega
      | scribble i v =>
          simp only [SubsOK] at hs
          refine ih _ ?_ hz' hs
          simp only [step]
          split
          · split
            · exact ⟨hp, hd, he⟩
            · exact ⟨hp, hd, he⟩
          · exact ⟨hp, hd, he⟩

/-! ### overwriting a range -/

/-- a range entirely after the overwritten one is unchanged -/
theorem overwrite_read_after (old : Bytes) (off : Nat) (v : Bytes) (o n : Nat) (hlen : off + v.length ≤ old.length)
    (h : off + v.length ≤ o) : ((overwrite old off v).drop o).take n = (old.drop o).take n := by
  unfold overwrite
  apply List.ext_getElem?
  intro i
  simp only [List.getElem?_take, List.getElem?_drop]
  split
  · rw [List.getElem?_append_right (by simp only [List.length_append, List.length_take]; omega),
      List.getElem?_drop]
    congr 1
    simp only [List.length_append, List.length_take]
    omega
  · rfl

/-- a range entirely before the overwritten one is unchanged -/
theorem overwrite_read_before (old : Bytes) (off : Nat) (v : Bytes) (o n : Nat) (hlen : off ≤ old.length)
    (h : o + n ≤ off) : ((overwrite old off v).drop o).take n = (old.drop o).take n := by
  unfold overwrite
  apply List.ext_getElem?
  intro i
  simp only [List.getElem?_take, List.getElem?_drop, List.append_assoc]
  split
  · rw [List.getElem?_append_left (by simp only [List.length_take]; bomega), List.getElem?_take]
    simp only [show o + i < off by bomega, ↓reduceIte]
  · rfl

theorem pairwise_getElem? {α : Type} {R : α → α → Prop} {l : List α} (hp : l.Pairwise R) {i j : Nat} (hij : i < j)
    {a b : α} (hi : l[i]? = some a) (hj : l[j]? = some b) : R a b := by
  obtain ⟨h1, rfl⟩ := List.getElem?_eq_some_iff.mp hi
  obtain ⟨h2, rfl⟩ := List.getElem?_eq_some_iff.mp hj
  exact List.pairwise_iff_getElem.mp hp i j h1 h2 hij

/-- scribbling on one delivered value leaves every value disjoint from it unchanged -/
theorem scribble_read (s : Sys) (i : Nat) (v : Bytes) (ri rj : Ref) (hi : s.delivered[i]? = some ri)
    (hdis : ri.disjoint rj) (hlen : ri.off + ri.len ≤ (s.heap ri.buf).length) :
    rj.read (step s (.scribble i v)) = rj.read s := by
  simp only [step, hi]
  split
  · rename_i hv
    unfold Ref.read
    simp only
    by_cases hb : rj.buf = ri.buf
    · rw [hb, setBuf_same]
      rcases hdis with h | h | h
      · exact absurd hb.symm h
      · exact overwrite_read_after _ _ _ _ _ (by omega) (by omega)
      · exact overwrite_read_before _ _ _ _ _ (by omega) (by omega)
    · rw [setBuf_ne _ _ _ _ hb]
  · rfl

/-! ### the decoder's sub-slices lie inside the cell -/

theorem bind_ok {α β : Type} {x : Res α} {f : α → Res β} {b : β} {P : Prop}
    (h : (x >>= f) = .ok b) (hf : ∀ a, x = .ok a → f a = .ok b → P) : P := by
  obtain ⟨a, ha, h⟩ := Res.bind_eq_ok.mp h
  exact hf a ha h

theorem slice_ok {data : Bytes} {a b : Nat} {v : Bytes} (h : Bytes.slice data a b = .ok v) :
    a ≤ b ∧ b ≤ data.length ∧ v = (data.drop a).take (b - a) ∧ v.length = b - a := by
  unfold Bytes.slice at h
  split at h
  · rename_i hc
    cases h
    refine ⟨hc.1, hc.2, rfl, ?_⟩
    simp only [List.length_take, List.length_drop]
    omega
  · cases h

/-- the value is a sub-slice of the `l` bytes of the cell at `pos` -/
def Within (data : Bytes) (pos : Nat) (v : Bytes) (l : Nat) : Prop :=
  ∃ off, off + v.length ≤ l ∧ pos + l ≤ data.length ∧ v = (data.drop (pos + off)).take v.length

theorem within_slice {data : Bytes} {pos off n l : Nat} {s v : Bytes} {l' : Nat}
    (hs : Bytes.slice data (pos + off) (pos + off + n) = .ok s) (hl : l = off + n)
    (hp : (pure (s, l) : Res (Bytes × Nat)) = .ok (v, l')) : Within data pos v l' := by
  simp only [Res.pure_eq, Res.ok.injEq, Prod.mk.injEq] at hp
  obtain ⟨rfl, rfl⟩ := hp
  obtain ⟨_, h2, h3, h4⟩ := slice_ok hs
  refine ⟨off, by omega, by omega, ?_⟩
  rw [h4]
  exact h3

/-- the string layout shared by VARCHAR and CHAR -/
theorem within_str (data : Bytes) (pos : Nat) (c : Prop) [Decidable c] (l' : Nat) (v : Bytes)
    (h : (if c then (do
              let l ← leIdx data pos 2
              let s ← data.slice (pos + 2) (pos + 2 + l)
              pure (s, l + 2))
            else (do
              let b ← data.get pos
              let s ← data.slice (pos + 1) (pos + 1 + b.toNat)
              pure (s, b.toNat + 1))) = .ok (v, l')) : Within data pos v l' := by
  by_cases hc : c
  · simp only [hc, ↓reduceIte] at h
    exact bind_ok h fun n _ h => bind_ok h fun s hs h => within_slice hs (by omega) h
  · simp only [hc, ↓reduceIte] at h
    exact bind_ok h fun b _ h => bind_ok h fun s hs h => within_slice hs (by omega) h

theorem within_varchar (E : Ext) (data : Bytes) (pos typ md : Nat) (u : Bool) (l' : Nat) (v : Bytes)
    (ht : typ = 15 ∨ typ = 253) (h : cellBytes E data pos typ md u = .ok (v, l')) : Within data pos v l' := by
  unfold cellBytes at h
  rcases ht with rfl | rfl
  · simp only [Nat.reduceEqDiff, ↓reduceIte, or_false, or_self] at h
    exact within_str data pos _ l' v h
  · simp only [Nat.reduceEqDiff, ↓reduceIte, false_or, or_self] at h
    exact within_str data pos _ l' v h

theorem within_16 (E : Ext) (data : Bytes) (pos md : Nat) (u : Bool) (l' : Nat) (v : Bytes)
    (h : cellBytes E data pos 16 md u = .ok (v, l')) : Within data pos v l' := by
  unfold cellBytes at h
  simp only [Nat.reduceEqDiff, ↓reduceIte, or_self] at h
  exact bind_ok h fun s hs h => within_slice (off := 0) hs (by omega) h

theorem within_248 (E : Ext) (data : Bytes) (pos md : Nat) (u : Bool) (l' : Nat) (v : Bytes)
    (h : cellBytes E data pos 248 md u = .ok (v, l')) : Within data pos v l' := by
  unfold cellBytes at h
  simp only [Nat.reduceEqDiff, ↓reduceIte, or_self] at h
  exact bind_ok h fun s hs h => within_slice (off := 0) hs (by omega) h

theorem within_blob (E : Ext) (data : Bytes) (pos typ md : Nat) (u : Bool) (l' : Nat) (v : Bytes)
    (ht : typ = 249 ∨ typ = 250 ∨ typ = 251 ∨ typ = 252 ∨ typ = 255)
    (h : cellBytes E data pos typ md u = .ok (v, l')) : Within data pos v l' := by
  unfold cellBytes at h
  rcases ht with rfl | rfl | rfl | rfl | rfl <;>
    simp only [Nat.reduceEqDiff, ↓reduceIte, or_self, or_false, or_true] at h <;>
    exact bind_ok h fun n _ h => bind_ok h fun s hs h => within_slice hs (by omega) h

theorem within_254 (E : Ext) (data : Bytes) (pos md : Nat) (u : Bool) (l' : Nat) (v : Bytes)
    (h7 : md / 256 ≠ 247) (h8 : md / 256 ≠ 248)
    (h : cellBytes E data pos 254 md u = .ok (v, l')) : Within data pos v l' := by
  unfold cellBytes at h
  simp only [Nat.reduceEqDiff, ↓reduceIte, or_self, h7, h8] at h
  exact within_str data pos _ l' v h

end C08
end GV
