import GV.Model.Mem
/- helper lemmas for GV/Props/C08.lean -/
namespace GV
namespace C08
open GV.Mem GV.M

/-! ### the heap -/

theorem setBuf_ne (h : BufId → Bytes) (b : BufId) (v : Bytes) (x : BufId) (hx : x ≠ b) : setBuf h b v x = h x := by
  simp [setBuf, hx]

theorem setBuf_same (h : BufId → Bytes) (b : BufId) (v : Bytes) : setBuf h b v b = v := by
  simp [setBuf]

theorem run_nil (s : Sys) : run s [] = s := rfl
theorem run_cons (s : Sys) (op : Op) (rest : List Op) : run s (op :: rest) = run (step s op) rest := rfl

/-- `next` only grows -/
theorem step_next_le (s : Sys) (op : Op) : s.next ≤ (step s op).next := by
  cases op with
  | readPacket p => simp [step]
  | newEvent => simp [step]
  | deliverSub off len => simp only [step]; split <;> simp
  | deliverFresh v => simp [step]
  | deliverZeroTs sh => simp only [step]; split <;> simp
  | scribble i v =>
      simp only [step]
      split
      · split <;> simp
      · simp

/-- a library operation writes only the transport buffer or a buffer that did not exist before -/
theorem step_lib_heap (s : Sys) (op : Op) (hl : isLib op = true) (b : BufId) (hb : b ≠ transport)
    (hlt : b < s.next) : (step s op).heap b = s.heap b := by
  have hne : b ≠ s.next := by omega
  cases op with
  | readPacket p => simp [step, setBuf_ne _ _ _ _ hb]
  | newEvent => simp [step, setBuf_ne _ _ _ _ hne]
  | deliverSub off len => simp only [step]; split <;> rfl
  | deliverFresh v => simp [step, setBuf_ne _ _ _ _ hne]
  | deliverZeroTs sh =>
      simp only [step]
      split
      · rfl
      · simp [setBuf_ne _ _ _ _ hne]
  | scribble i v => simp [isLib] at hl

theorem run_lib_heap (later : List Op) : ∀ (s : Sys), (∀ op ∈ later, isLib op = true) →
    ∀ b : BufId, b ≠ transport → b < s.next → (run s later).heap b = s.heap b := by
  induction later with
  | nil => intro s _ b _ _; rfl
  | cons op rest ih =>
      intro s hl b hb hlt
      rw [run_cons, ih (step s op) (fun o ho => hl o (List.mem_cons_of_mem _ ho)) b hb
        (Nat.lt_of_lt_of_le hlt (step_next_le s op))]
      exact step_lib_heap s op (hl op List.mem_cons_self) b hb hlt

/-! ### where delivered values live -/

/-- bookkeeping invariant of every reachable state -/
def Inv (s : Sys) : Prop :=
  2 ≤ s.next ∧ (∀ r ∈ s.delivered, r.buf ≠ transport ∧ r.buf < s.next) ∧
    (∀ e ∈ s.events, e ≠ transport ∧ e < s.next)

theorem inv_init : Inv init := by
  simp [Inv, init]

theorem inv_step (s : Sys) (op : Op) (h : Inv s) : Inv (step s op) := by
  obtain ⟨h2, hd, he⟩ := h
  cases op with
  | readPacket p => exact ⟨h2, hd, he⟩
  | newEvent =>
      refine ⟨by simp only [step]; omega, ?_, ?_⟩
      · intro r hr
        have := hd r hr
        simp only [step]
        exact ⟨this.1, by omega⟩
      · intro e hm
        simp only [step, List.mem_cons] at hm ⊢
        rcases hm with rfl | hm
        · exact ⟨by simp only [transport]; omega, by omega⟩
        · have := he e hm
          exact ⟨this.1, by omega⟩
  | deliverSub off len =>
      simp only [step]
      split
      · rename_i e es heq
        refine ⟨h2, ?_, he⟩
        intro r hr
        simp only [List.mem_append, List.mem_singleton] at hr
        rcases hr with hr | rfl
        · exact hd r hr
        · exact he e (by rw [heq]; exact List.mem_cons_self)
      · exact ⟨h2, hd, he⟩
  | deliverFresh v =>
      refine ⟨by simp only [step]; omega, ?_, ?_⟩
      · intro r hr
        simp only [step, List.mem_append, List.mem_singleton] at hr ⊢
        rcases hr with hr | rfl
        · have := hd r hr
          exact ⟨this.1, by omega⟩
        · exact ⟨by simp only [transport]; omega, by omega⟩
      · intro e hm
        have := he e hm
        simp only [step]
        exact ⟨this.1, by omega⟩
  | deliverZeroTs sh =>
      cases sh with
      | true =>
          refine ⟨h2, ?_, he⟩
          intro r hr
          simp only [step, ↓reduceIte, List.mem_append, List.mem_singleton] at hr ⊢
          rcases hr with hr | rfl
          · exact hd r hr
          · exact ⟨by simp [transport, zeroTsConst], by simp only [zeroTsConst]; omega⟩
      | false =>
          refine ⟨by simp [step]; omega, ?_, ?_⟩
          · intro r hr
            simp only [step, Bool.false_eq_true, ↓reduceIte, List.mem_append, List.mem_singleton] at hr ⊢
            rcases hr with hr | rfl
            · have := hd r hr
              exact ⟨this.1, by omega⟩
            · exact ⟨by simp only [transport]; omega, by omega⟩
          · intro e hm
            have := he e hm
            simp only [step, Bool.false_eq_true, ↓reduceIte]
            exact ⟨this.1, by omega⟩
  | scribble i v =>
      simp only [step]
      split
      · split
        · exact ⟨h2, hd, he⟩
        · exact ⟨h2, hd, he⟩
      · exact ⟨h2, hd, he⟩

theorem inv_run (ops : List Op) : ∀ s : Sys, Inv s → Inv (run s ops) := by
  induction ops with
  | nil => intro s h; exact h
  | cons op rest ih => intro s h; exact ih _ (inv_step s op h)

/-! ### pairwise disjointness -/

theorem disjoint_symm {a b : Ref} (h : a.disjoint b) : b.disjoint a := by
  rcases h with h | h | h
  · exact Or.inl (Ne.symm h)
  · exact Or.inr (Or.inr h)
  · exact Or.inr (Or.inl h)

/-- the invariant of `C08_pairwise_disjoint` -/
def PInv (s : Sys) : Prop :=
  s.delivered.Pairwise Ref.disjoint ∧ (∀ r ∈ s.delivered, r.buf < s.next) ∧ (∀ e ∈ s.events, e < s.next)

theorem pinv_init : PInv init := by
  simp [PInv, init]

/-- appending a value in a fresh buffer -/
theorem pairwise_fresh (l : List Ref) (n off len : Nat) (hp : l.Pairwise Ref.disjoint) (hd : ∀ r ∈ l, r.buf < n) :
    (l ++ [⟨n, off, len⟩]).Pairwise Ref.disjoint := by
  rw [List.pairwise_append]
  refine ⟨hp, List.pairwise_singleton _ _, ?_⟩
  intro a ha b hb
  simp only [List.mem_singleton] at hb
  subst hb
  have := hd a ha
  exact Or.inl (by simp only; omega)

theorem pinv_run (ops : List Op) : ∀ s : Sys, PInv s → (∀ op ∈ ops, op ≠ .deliverZeroTs true) → SubsOK s ops →
    PInv (run s ops) := by
  induction ops with
  | nil => intro s h _ _; exact h
  | cons op rest ih =>
      intro s h hz hs
      obtain ⟨hp, hd, he⟩ := h
      have hz' : ∀ o ∈ rest, o ≠ .deliverZeroTs true := fun o ho => hz o (List.mem_cons_of_mem _ ho)
      rw [run_cons]
      cases op with
      | readPacket p =>
          simp only [SubsOK] at hs
          exact ih _ ⟨hp, hd, he⟩ hz' hs
      | newEvent =>
          simp only [SubsOK] at hs
          refine ih _ ⟨hp, ?_, ?_⟩ hz' hs
          · intro r hr
            have := hd r hr
            simp only [step]; omega
          · intro e hm
            simp only [step, List.mem_cons] at hm ⊢
            rcases hm with rfl | hm
            · omega
            · have := he e hm; omega
      | deliverSub off len =>
          simp only [SubsOK] at hs
          obtain ⟨hs1, hs2⟩ := hs
          refine ih _ ?_ hz' hs2
          simp only [step]
          split at hs1
          · rename_i e es heq
            simp only [heq]
            refine ⟨?_, ?_, he⟩
            · rw [List.pairwise_append]
              refine ⟨hp, List.pairwise_singleton _ _, ?_⟩
              intro a ha b hb
              simp only [List.mem_singleton] at hb
              subst hb
              by_cases hb : a.buf = e
              · exact Or.inr (hs1.2 a ha hb)
              · exact Or.inl hb
            · intro r hr
              simp only [List.mem_append, List.mem_singleton] at hr
              rcases hr with hr | rfl
              · exact hd r hr
              · exact he e (by rw [heq]; exact List.mem_cons_self)
          · exact hs1.elim
      | deliverFresh v =>
          simp only [SubsOK] at hs
          refine ih _ ⟨pairwise_fresh _ _ _ _ hp hd, ?_, ?_⟩ hz' hs
          · intro r hr
            simp only [step, List.mem_append, List.mem_singleton] at hr ⊢
            rcases hr with hr | rfl
            · have := hd r hr; omega
            · simp only; omega
          · intro e hm
            have := he e hm
            simp only [step]; omega
      | deliverZeroTs sh =>
          cases sh with
          | true => exact absurd rfl (hz _ List.mem_cons_self)
          | false =>
              simp only [SubsOK] at hs
              refine ih _ ?_ hz' hs
              simp only [step, Bool.false_eq_true, ↓reduceIte]
              refine ⟨pairwise_fresh _ _ _ _ hp hd, ?_, ?_⟩
              · intro r hr
                simp only [List.mem_append, List.mem_singleton] at hr ⊢
                rcases hr with hr | rfl
                · have := hd r hr; omega
                · simp only; omega
              · intro e hm
                have := he e hm
                omega
      | scribble i v =>
          simp only [SubsOK] at hs
          refine ih _ ?_ hz' hs
          simp only [step]
          split
          · split
            · exact ⟨hp, hd, he⟩
            · exact ⟨hp, hd, he⟩
          · exact ⟨hp, hd, he⟩

/-! ### overwriting a range -/

/-- a range entirely after the overwritten one is unchanged -/
theorem overwrite_read_after (old : Bytes) (off : Nat) (v : Bytes) (o n : Nat) (hlen : off + v.length ≤ old.length)
    (h : off + v.length ≤ o) : ((overwrite old off v).drop o).take n = (old.drop o).take n := by
  have hl : (old.take off ++ v).length = off + v.length := by
    simp only [List.length_append, List.length_take]; omega
  unfold overwrite
  obtain ⟨k, rfl⟩ : ∃ k, o = (old.take off ++ v).length + k := ⟨o - (off + v.length), by omega⟩
  rw [List.drop_append, List.drop_drop, hl]

/-- a range entirely before the overwritten one is unchanged -/
theorem overwrite_read_before (old : Bytes) (off : Nat) (v : Bytes) (o n : Nat) (hlen : off ≤ old.length)
    (h : o + n ≤ off) : ((overwrite old off v).drop o).take n = (old.drop o).take n := by
  unfold overwrite
  apply List.ext_getElem?
  intro i
  simp only [List.getElem?_take, List.getElem?_drop, List.append_assoc]
  split
  · rw [List.getElem?_append_left (by simp only [List.length_take]; omega), List.getElem?_take]
    simp only [show o + i < off by omega, ↓reduceIte]
  · rfl

end C08
end GV
