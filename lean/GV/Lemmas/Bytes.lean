import GV.Base.Go
/- Shared helper lemmas about byte strings (core Lean only). -/
namespace GV
open Bytes

@[simp] theorem ofLE_length (w n : Nat) : (ofLE w n).length = w := by
  induction w generalizing n with
  | zero => rfl
  | succ w ih => simp [ofLE, ih]

@[simp] theorem ofBE_length (w n : Nat) : (ofBE w n).length = w := by simp [ofBE]

theorem toNat_ofNat_mod (n : Nat) : (UInt8.ofNat (n % 256)).toNat = n % 256 := by
  simp [UInt8.toNat_ofNat']

theorem le_ofLE (w n : Nat) : le (ofLE w n) = n % 256 ^ w := by
  induction w generalizing n with
  | zero => simp [ofLE, le, Nat.mod_one]
  | succ w ih =>
    simp only [ofLE, le, ih, toNat_ofNat_mod]
    rw [Nat.pow_succ, Nat.mul_comm (256 ^ w) 256, Nat.mod_mul]

theorem beAux_append (acc : Nat) (a b : Bytes) : beAux acc (a ++ b) = beAux (beAux acc a) b := by
  induction a generalizing acc with
  | nil => rfl
  | cons x xs ih => simp [beAux, ih]

theorem beAux_eq (acc : Nat) (a : Bytes) : beAux acc a = acc * 256 ^ a.length + beAux 0 a := by
  induction a generalizing acc with
  | nil => simp [beAux]
  | cons x xs ih =>
    simp only [beAux, List.length_cons]
    rw [ih, ih (0 * 256 + x.toNat)]
    simp [Nat.pow_succ, Nat.add_mul, Nat.mul_assoc, Nat.add_assoc, Nat.mul_comm 256]

theorem be_reverse (a : Bytes) : be a.reverse = le a := by
  induction a with
  | nil => rfl
  | cons x xs ih =>
    simp only [List.reverse_cons, be, beAux_append, le]
    simp only [be] at ih
    rw [ih]; simp [beAux]; omega

theorem be_ofBE (w n : Nat) : be (ofBE w n) = n % 256 ^ w := by
  simp [ofBE, be_reverse, le_ofLE]

/-! slices of appended lists (stated in simp-normal, right-nested form) -/

theorem slice_mid (a b c : Bytes) : Bytes.slice (a ++ (b ++ c)) a.length (a.length + b.length) = .ok b := by
  simp [Bytes.slice]

theorem slice_mid' (a b c : Bytes) (lo hi : Nat) (hlo : lo = a.length) (hhi : hi = a.length + b.length) :
    Bytes.slice (a ++ (b ++ c)) lo hi = .ok b := by
  subst hlo hhi; exact slice_mid a b c

theorem slice_head (b c : Bytes) (hi : Nat) (h : hi = b.length) : Bytes.slice (b ++ c) 0 hi = .ok b := by
  subst h; simpa using slice_mid [] b c

theorem get_mid (a : Bytes) (x : UInt8) (c : Bytes) : Bytes.get (a ++ x :: c) a.length = .ok x := by
  simp [Bytes.get]

theorem get_ok (b : Bytes) (i : Nat) (h : i < b.length) : Bytes.get b i = .ok b[i] := by
  simp [Bytes.get, h]

theorem get_panic (b : Bytes) (i : Nat) (h : b.length ≤ i) : Bytes.get b i = .panic := by
  simp [Bytes.get, h]

theorem readLE_mid (a c : Bytes) (w n : Nat) :
    readLE (a ++ (ofLE w n ++ c)) a.length w = .ok (n % 256 ^ w) := by
  unfold readLE
  rw [slice_mid' a (ofLE w n) c _ _ rfl (by simp)]
  simp [le_ofLE]

theorem readLE_head (c : Bytes) (w n : Nat) : readLE (ofLE w n ++ c) 0 w = .ok (n % 256 ^ w) := by
  simpa using readLE_mid [] c w n

theorem readBE_mid (a c : Bytes) (w n : Nat) :
    readBE (a ++ (ofBE w n ++ c)) a.length w = .ok (n % 256 ^ w) := by
  unfold readBE
  rw [slice_mid' a (ofBE w n) c _ _ rfl (by simp)]
  simp [be_ofBE]

theorem readBE_head (c : Bytes) (w n : Nat) : readBE (ofBE w n ++ c) 0 w = .ok (n % 256 ^ w) := by
  simpa using readBE_mid [] c w n

end GV
