import GV.Props.C02b
import GV.Lemmas.C09c
/-
  Definitions and helper lemmas for GV/Props/C02c.lean (C02 at the byte level: packets the parser ignores, woven into the
  served stream at arbitrary places — in particular INSIDE transactions, which the Spec grammar cannot express).
  The first section holds the definitions the property statements are made of.

  Part A (model level): a packet on which `stepEvent` answers `.cont st` in the states satisfying an invariant P of the
          run can be inserted anywhere without changing `parseEvents` (`noop_insert`, `noop_insert_reach`, `weave_run`).
  Part B (packet level): which packets are such no-ops (`classify_unhandled`, `classify_stmt_writer`, `NoiseKind`); the
          next_position field is irrelevant (`setNext_valid_type`, `setNext_event`).
  Part C (stream level): the packets the Spec master serves keep `PInv` (GV/Lemmas/C09c.lean, used with no padding at
          all), which contains `Ready cfg`; so no-op packets woven in behind the FORMAT_DESCRIPTION event leave the
          outcome of `C04_bytes_outcome` unchanged (`noise_lands`, `noise_outcome`).
-/
namespace GV
namespace C02c
open Bytes M GV.Props.C01 GV.Props.C01b GV.C01c GV.C01d GV.C04b GV.C09c

/-! ### the statements' vocabulary -/

/-- the packet `b` is a no-op for the parser in every state satisfying `P`: the parser keeps reading, in the SAME state
    (position, open transaction, autocommit flag, format, table cache) -/
def NoOp (env : Env) (P : PState → Prop) (b : Bytes) : Prop := ∀ st, P st → stepEvent env st b = .cont st

/-- the packet `b` keeps `P`: whatever the parser does with it from a state satisfying `P` — keep reading, or call the
    handler — the state it goes on with satisfies `P` -/
def Keeps (env : Env) (P : PState → Prop) (b : Bytes) : Prop :=
  ∀ st, P st → (∀ st', stepEvent env st b = .cont st' → P st') ∧ (∀ tx a, stepEvent env st b = .deliver tx a → P a)

/-- the state the parser is in after the packets `l` when every call so far was accepted by `acc`; `none` if it returned
    before the end of `l` (it stopped, or the handler rejected a call) -/
def stateAfter (env : Env) (acc : Transaction → Bool) : PState → List Bytes → Option PState
  | st, [] => some st
  | st, b :: l =>
    match stepEvent env st b with
    | .cont st' => stateAfter env acc st' l
    | .stop _ _ => none
    | .deliver tx a => if acc tx then stateAfter env acc a l else none

/-- a packet of a woven stream: one of the original stream, or one that was woven in -/
inductive Pkt where
  | orig (b : Bytes)
  | noise (b : Bytes)
  deriving Repr, DecidableEq, BEq, Inhabited

def Pkt.bytes : Pkt → Bytes
  | .orig b => b
  | .noise b => b

/-- the woven stream as the parser gets it -/
def flat (w : List Pkt) : List Bytes := w.map Pkt.bytes

/-- the original packets of a woven stream, in order -/
def origs : List Pkt → List Bytes
  | [] => []
  | .orig b :: w => b :: origs w
  | .noise _ :: w => origs w

/-- the packets woven in, in order -/
def noises : List Pkt → List Bytes
  | [] => []
  | .orig _ :: w => noises w
  | .noise b :: w => b :: noises w

/-- how many of the first k packets of the woven stream are original ones -/
def origCount (w : List Pkt) (k : Nat) : Nat := (origs (w.take k)).length

/-- the weave as a relation: `ys` is `xs` with packets satisfying `N` inserted at arbitrary places -/
inductive Woven (N : Bytes → Prop) : List Bytes → List Bytes → Prop where
  | nil : Woven N [] []
  | keep (x : Bytes) {xs ys : List Bytes} : Woven N xs ys → Woven N (x :: xs) (x :: ys)
  | ins (b : Bytes) {xs ys : List Bytes} : N b → Woven N xs ys → Woven N xs (b :: ys)

/-- the driver (GV/Driver/Hist.lean, `noise=`) rewrites the next_position field (bytes 13..16) of a noise packet with
    that of the packet it follows -/
def setNext (nz pred : Bytes) : Bytes :=
  if nz.length < 19 || pred.length < 19 then nz else nz.take 13 ++ (pred.drop 13).take 4 ++ nz.drop 17

/-- the weave of the test driver: behind the j-th packet of `bs` (numbered k + j) come the noise packets registered
    for that number, in the order given, each with its next_position rewritten -/
def weaveAfter (noise : List (Nat × Bytes)) : Nat → List Bytes → List Pkt
  | _, [] => []
  | k, b :: bs =>
    .orig b :: ((noise.filter (·.1 == k)).map fun nz => Pkt.noise (setNext nz.2 b)) ++ weaveAfter noise (k + 1) bs

/-- what the driver serves with `noise=`: the first `pre` packets (the preamble of the dump) untouched, the others woven;
    `base` is the number the driver gives to the first laid-out event served (its index in the whole log) -/
def driverWeave (pre base : Nat) (noise : List (Nat × Bytes)) (packets : List Bytes) : List Pkt :=
  (packets.take pre).map Pkt.orig ++ weaveAfter noise base (packets.drop pre)

/-- the parser has seen a format description it can work with: a non-zero format whose checksum algorithm is off (0),
    CRC32 (1) or undefined (255) -/
def FmtSeen (st : PState) : Prop :=
  st.format.isZero = false ∧ (st.format.checksumAlg = 0 ∨ st.format.checksumAlg = 1 ∨ st.format.checksumAlg = 255)

/-! ## Part A — inserting no-ops -/

theorem origs_append (a b : List Pkt) : origs (a ++ b) = origs a ++ origs b := by
  induction a with
  | nil => rfl
  | cons x a ih => cases x <;> simp [origs, ih]

theorem noises_append (a b : List Pkt) : noises (a ++ b) = noises a ++ noises b := by
  induction a with
  | nil => rfl
  | cons x a ih => cases x <;> simp [noises, ih]

theorem flat_take (w : List Pkt) (k : Nat) : (flat w).take k = flat (w.take k) := by
  simp [flat, List.map_take]

/-- the original packets among the first k of the woven stream are the first `origCount w k` original packets -/
theorem origs_take (w : List Pkt) (k : Nat) : origs (w.take k) = (origs w).take (origCount w k) := by
  have h := origs_append (w.take k) (w.drop k)
  rw [List.take_append_drop] at h
  rw [h, origCount, List.take_left']
  rfl

theorem noises_take_subset (w : List Pkt) (k : Nat) : ∀ b ∈ noises (w.take k), b ∈ noises w := by
  intro b hb
  have h := noises_append (w.take k) (w.drop k)
  rw [List.take_append_drop] at h
  rw [h]
  exact List.mem_append_left _ hb

theorem origCount_le (w : List Pkt) (k : Nat) : origCount w k ≤ k := by
  unfold origCount
  have : ∀ l : List Pkt, (origs l).length ≤ l.length := by
    intro l
    induction l with
    | nil => exact Nat.le_refl _
    | cons x l ih => cases x <;> simp [origs] <;> omega
  exact Nat.le_trans (this _) (by simp; omega)

/-- a no-op keeps whatever holds -/
theorem noOp_keeps {env : Env} {P : PState → Prop} {b : Bytes} (hb : NoOp env P b) : Keeps env P b := by
  intro st hP
  rw [hb st hP]
  exact ⟨fun st' h => by cases h; exact hP, fun tx a h => by cases h⟩

/-- ONE insertion, anywhere: the packets before it keep `P`, the inserted packet is a no-op under `P`; whatever comes
    after it (packets, closed channel, cancellation — any `List Input`) -/
theorem noop_insert (env : Env) (P : PState → Prop) (acc : Transaction → Bool) (b : Bytes) (hb : NoOp env P b)
    (post : List Input) : ∀ (pre : List Bytes) (st : PState), P st → (∀ x ∈ pre, Keeps env P x) →
    parseEvents env acc st (pre.map Input.event ++ Input.event b :: post)
      = parseEvents env acc st (pre.map Input.event ++ post) := by
  intro pre
  induction pre with
  | nil =>
    intro st hP _
    simp only [List.map_nil, List.nil_append, parseEvents, hb st hP]
  | cons x pre ih =>
    intro st hP hk
    obtain ⟨k1, k2⟩ := hk x List.mem_cons_self st hP
    have hk' := fun y hy => hk y (List.mem_cons_of_mem _ hy)
    simp only [List.map_cons, List.cons_append, parseEvents]
    cases hs : stepEvent env st x with
    | cont st' => simp only [ih st' (k1 st' hs) hk']
    | stop e c => rfl
    | deliver tx a => simp only [ih a (k2 tx a hs) hk']

/-- ONE insertion, by reachability: all that is needed is that b is a no-op in THE state the parser is in after `pre`
    (if it gets that far) -/
theorem noop_insert_reach (env : Env) (acc : Transaction → Bool) (b : Bytes) (post : List Input) :
    ∀ (pre : List Bytes) (st : PState), (∀ st', stateAfter env acc st pre = some st' → stepEvent env st' b = .cont st') →
    parseEvents env acc st (pre.map Input.event ++ Input.event b :: post)
      = parseEvents env acc st (pre.map Input.event ++ post) := by
  intro pre
  induction pre with
  | nil =>
    intro st hb
    simp only [List.map_nil, List.nil_append, parseEvents, hb st rfl]
  | cons x pre ih =>
    intro st hb
    simp only [List.map_cons, List.cons_append, parseEvents]
    cases hs : stepEvent env st x with
    | cont st' => simp only [ih st' (fun s h => hb s (by simp only [stateAfter, hs]; exact h))]
    | stop e c => rfl
    | deliver tx a =>
      cases ha : acc tx with
      | false => simp [ha]
      | true => simp only [ih a (fun s h => hb s (by simp only [stateAfter, hs, ha, if_true]; exact h))]

/-- ANY number of insertions, anywhere -/
theorem weave_run (env : Env) (P : PState → Prop) (acc : Transaction → Bool) (tail : List Input) :
    ∀ (w : List Pkt) (st : PState), P st → (∀ x ∈ origs w, Keeps env P x) → (∀ b ∈ noises w, NoOp env P b) →
    parseEvents env acc st ((flat w).map Input.event ++ tail) = parseEvents env acc st ((origs w).map Input.event ++ tail) := by
  intro w
  induction w with
  | nil => intro st _ _ _; rfl
  | cons x w ih =>
    intro st hP hk hn
    cases x with
    | noise b =>
      have hb := hn b (by simp [noises]) st hP
      simp only [flat, List.map_cons, Pkt.bytes, List.cons_append, parseEvents, hb, origs]
      exact ih st hP (fun y hy => hk y (by simpa [origs] using hy)) (fun y hy => hn y (by simp [noises, hy]))
    | orig b =>
      obtain ⟨k1, k2⟩ := hk b (by simp [origs]) st hP
      have hk' : ∀ y ∈ origs w, Keeps env P y := fun y hy => hk y (by simp [origs, hy])
      have hn' : ∀ y ∈ noises w, NoOp env P y := fun y hy => hn y (by simpa [noises] using hy)
      simp only [flat, List.map_cons, Pkt.bytes, List.cons_append, parseEvents, origs]
      cases hs : stepEvent env st b with
      | cont st' => simp only [← ih st' (k1 st' hs) hk' hn', flat]
      | stop e c => rfl
      | deliver tx a => simp only [← ih a (k2 tx a hs) hk' hn', flat]

/-- the relation and the tagged list say the same -/
theorem woven_iff (N : Bytes → Prop) (xs ys : List Bytes) :
    Woven N xs ys ↔ ∃ w, origs w = xs ∧ flat w = ys ∧ ∀ b ∈ noises w, N b := by
  constructor
  · intro h
    induction h with
    | nil => exact ⟨[], rfl, rfl, by intro b hb; cases hb⟩
    | keep x _ ih =>
      obtain ⟨w, h1, h2, h3⟩ := ih
      exact ⟨.orig x :: w, by simp [origs, h1], by simp [flat, Pkt.bytes] at h2 ⊢; exact h2, by simpa [noises] using h3⟩
    | ins b hb _ ih =>
      obtain ⟨w, h1, h2, h3⟩ := ih
      refine ⟨.noise b :: w, by simp [origs, h1], by simp [flat, Pkt.bytes] at h2 ⊢; exact h2, ?_⟩
      intro y hy
      simp only [noises, List.mem_cons] at hy
      rcases hy with rfl | hy
      · exact hb
      · exact h3 y hy
  · rintro ⟨w, rfl, rfl, h3⟩
    induction w with
    | nil => exact .nil
    | cons x w ih =>
      cases x with
      | orig b => exact .keep b (ih (fun y hy => h3 y (by simpa [noises] using hy)))
      | noise b => exact .ins b (h3 b (by simp [noises])) (ih (fun y hy => h3 y (by simp [noises, hy])))

theorem weaveAfter_origs (noise : List (Nat × Bytes)) : ∀ (bs : List Bytes) (k : Nat), origs (weaveAfter noise k bs) = bs := by
  intro bs
  induction bs with
  | nil => intro k; rfl
  | cons b bs ih =>
    intro k
    have hno : ∀ l : List (Nat × Bytes), origs (l.map fun nz => Pkt.noise (setNext nz.2 b)) = [] := by
      intro l; induction l with
      | nil => rfl
      | cons a l ihl => simpa [origs] using ihl
    simp only [weaveAfter, origs, origs_append, hno, ih]
    rfl

/-- every packet the driver weaves in is one of the registered noise packets with its next_position rewritten -/
theorem weaveAfter_noises (noise : List (Nat × Bytes)) : ∀ (bs : List Bytes) (k : Nat),
    ∀ b ∈ noises (weaveAfter noise k bs), ∃ nz ∈ noise, ∃ pred ∈ bs, b = setNext nz.2 pred := by
  intro bs
  induction bs with
  | nil => intro k b hb; cases hb
  | cons x bs ih =>
    intro k b hb
    have hno : ∀ l : List (Nat × Bytes), noises (l.map fun nz => Pkt.noise (setNext nz.2 x)) = l.map fun nz => setNext nz.2 x := by
      intro l; induction l with
      | nil => rfl
      | cons a l ihl => simp [noises, ihl]
    simp only [weaveAfter, noises, noises_append, hno, List.mem_append, List.mem_map] at hb
    rcases hb with ⟨a, ha, rfl⟩ | hb
    · exact ⟨a, (List.mem_filter.mp ha).1, x, List.mem_cons_self, rfl⟩
    · obtain ⟨nz, h1, pred, h2, h3⟩ := ih (k + 1) b hb
      exact ⟨nz, h1, pred, List.mem_cons_of_mem _ h2, h3⟩

/-- the driver never weaves before the first packet it is given: woven from the third packet of a dump on, no noise
    comes before the FORMAT_DESCRIPTION event -/
theorem weaveAfter_head (noise : List (Nat × Bytes)) (k : Nat) (a b : Bytes) (bs : List Bytes) :
    noises ((Pkt.orig a :: Pkt.orig b :: weaveAfter noise k bs).take 2) = [] := rfl

theorem origs_map_orig (l : List Bytes) : origs (l.map Pkt.orig) = l := by
  induction l with
  | nil => rfl
  | cons a l ih => simp [origs, ih]

theorem noises_map_orig (l : List Bytes) : noises (l.map Pkt.orig) = [] := by
  induction l with
  | nil => rfl
  | cons a l ih => simpa [noises] using ih

theorem driverWeave_origs (pre base : Nat) (noise : List (Nat × Bytes)) (s : List Bytes) :
    origs (driverWeave pre base noise s) = s := by
  rw [driverWeave, origs_append, origs_map_orig, weaveAfter_origs, List.take_append_drop]

theorem driverWeave_noises (pre base : Nat) (noise : List (Nat × Bytes)) (s : List Bytes) :
    ∀ b ∈ noises (driverWeave pre base noise s), ∃ nz ∈ noise, ∃ pred ∈ s, b = setNext nz.2 pred := by
  intro b hb
  rw [driverWeave, noises_append, noises_map_orig, List.nil_append] at hb
  obtain ⟨nz, h1, pred, h2, h3⟩ := weaveAfter_noises noise _ _ b hb
  exact ⟨nz, h1, pred, List.mem_of_mem_drop h2, h3⟩

/-- with at least one packet of preamble the driver weaves nothing before the second packet of the dump: its first
    noise packet comes BEHIND the first laid-out event, which at a file head is the FORMAT_DESCRIPTION event -/
theorem driverWeave_head (pre base : Nat) (noise : List (Nat × Bytes)) (s : List Bytes) (hp : 1 ≤ pre) :
    noises ((driverWeave pre base noise s).take 2) = [] :=
  match s, pre, hp with
  | [], _, _ => by simp [driverWeave, weaveAfter, noises]
  | [a], pre + 1, _ => by simp [driverWeave, weaveAfter, noises]
  | a :: b :: rest, 1, _ => rfl
  | a :: b :: rest, pre + 2, _ => by simp [driverWeave, noises]

/-! ## Part B — which packets are no-ops -/

theorem get_take (b : Bytes) (n i : Nat) (h : i < n) : Bytes.get (b.take n) i = Bytes.get b i := by
  unfold Bytes.get
  rw [List.getElem?_take_of_lt h]

theorem isValid_length (b : Bytes) (hv : isValid b = true) : 19 ≤ b.length := by
  unfold isValid at hv
  by_cases h : b.length < 19
  · simp [h] at hv
  · omega

/-- checksum stripping of a valid event under a usable format succeeds and leaves the type byte alone -/
theorem strip_unhandled (st : PState) (b : Bytes) (t : Nat) (hv : isValid b = true) (ht : evType b = .ok t)
    (hf : FmtSeen st) : ∃ ev, stripChecksum56 st.format b = .ok ev ∧ evType ev = .ok t := by
  have hl := isValid_length b hv
  obtain ⟨_, h0 | h1 | h255⟩ := hf
  · exact ⟨b, by simp [stripChecksum56, h0], ht⟩
  · refine ⟨b.take (b.length - 4), ?_, ?_⟩
    · have : ¬ b.length < 4 := by omega
      simp [stripChecksum56, h1, this]
    · unfold evType at ht ⊢
      rw [get_take b (b.length - 4) 4 (by omega)]
      exact ht
  · exact ⟨b, by simp [stripChecksum56, h255], ht⟩

theorem classify_unhandled (env : Env) (st : PState) (b : Bytes) (t : Nat) (hv : isValid b = true)
    (ht : evType b = .ok t) (hty : t ∉ handledTypes) (hf : FmtSeen st) : classify env st b = .skip := by
  obtain ⟨ev, h3, h4⟩ := strip_unhandled st b t hv ht hf
  simp only [handledTypes, List.mem_cons, List.not_mem_nil, or_false, not_or] at hty
  obtain ⟨t15, t16, t4, t2, t19, t23, t24, t25, t30, t31, t32, t13, t5, t29⟩ := hty
  simp only [classify, hv, ht, h3, h4, ofRes, hf.1, Facts.eFormatDescriptionEvent, Facts.eXIDEvent,
    Facts.eRotateEvent, Facts.eQueryEvent, Facts.eTableMapEvent, Facts.eWriteRowsEventV1, Facts.eWriteRowsEventV2,
    Facts.eUpdateRowsEventV1, Facts.eUpdateRowsEventV2, Facts.eDeleteRowsEventV1, Facts.eDeleteRowsEventV2,
    Facts.ePreviousGTIDsEvent, Facts.eGTIDEvent, Facts.eRandEvent, Facts.eIntVarEvent, Facts.eRowsQueryEvent,
    t15, t16, t4, t2, t19, t23, t24, t25, t30, t31, t32, t13, t5, t29]
  simp

/-- … and without a usable format the parser stops on it -/
theorem classify_unhandled_nofmt (env : Env) (st : PState) (b : Bytes) (t : Nat) (hv : isValid b = true)
    (ht : evType b = .ok t) (hty : t ∉ handledTypes) (hf : ¬ FmtSeen st) : classify env st b = .decodeErr := by
  simp only [handledTypes, List.mem_cons, List.not_mem_nil, or_false, not_or] at hty
  obtain ⟨t15, _, t4, _⟩ := hty
  cases hz : st.format.isZero with
  | true => simp [classify, hv, ht, ofRes, hz, Facts.eFormatDescriptionEvent, Facts.eRotateEvent, t15, t4]
  | false =>
    have ha : ¬ (st.format.checksumAlg = 0 ∨ st.format.checksumAlg = 255) ∧ st.format.checksumAlg ≠ 1 := by
      refine ⟨?_, ?_⟩
      · rintro (h | h)
        · exact hf ⟨hz, Or.inl h⟩
        · exact hf ⟨hz, Or.inr (Or.inr h)⟩
      · intro h; exact hf ⟨hz, Or.inr (Or.inl h)⟩
    simp [classify, hv, ht, ofRes, hz, Facts.eFormatDescriptionEvent, t15, stripChecksum56, ha.1, ha.2]

/-- a QUERY event of the Spec's writer — whatever its timestamp, server id, flags and next_position (nothing is asked
    of them: the writer reduces them to their wire widths) — is classified as the statement it carries -/
theorem classify_stmt_writer (env : Env) (st : PState) (cfg : W.Cfg) (hr : Ready cfg st) (crc : Option Bytes)
    (hc : crcOK cfg crc) (m : W.EvMeta) (start : Nat) (nx : Option Nat) (vars : List W.StatusVar) (db sql : Bytes)
    (hk : ∀ v ∈ vars, Props.C16.KnownVar v) (hlen : (vars.flatMap W.statusVarBytes).length < 65536)
    (hdb : db.length < 256)
    (htot : 19 + (W.queryBody 1 0 0 vars db sql).length + Props.C16.crcLen crc < 2 ^ 32) :
    classify env st (W.event crc m 2 start (W.queryBody 1 0 0 vars db sql) nx).1
      = .stmt (statementCategory sql) ⟨db, Props.C16.charsetOf vars, sql⟩
          ((nx.getD (start + (19 + (W.queryBody 1 0 0 vars db sql).length + Props.C16.crcLen crc))) % 256 ^ 4)
          (m.ts % 256 ^ 4) := by
  have hcf := GV.C01b.crc_pre hr hc
  rw [event_fst]
  generalize hB : W.queryBody 1 0 0 vars db sql = body at htot ⊢
  generalize hN : nx.getD (start + (19 + body.length + Props.C16.crcLen crc)) = next
  generalize hH : W.header m.ts 2 m.sid (19 + body.length + Props.C16.crcLen crc) next m.flags = hdr
  have hh : hdr.length = 19 := by rw [← hH]; exact GV.C16.header_length ..
  have hcl : Props.C16.crcLen crc = (crc.getD []).length := by cases crc <;> rfl
  have h1 : isValid (hdr ++ (body ++ crc.getD [])) = true := by
    rw [← hH]
    exact C01.isValid_hdr _ _ _ _ _ _ _ (by simp [hcl]; omega) htot
  have h2 : evType (hdr ++ (body ++ crc.getD [])) = .ok 2 := by rw [← hH, GV.C16.hdr_typ]; rfl
  have h3 : stripChecksum56 st.format (hdr ++ (body ++ crc.getD [])) = .ok (hdr ++ body) := by
    unfold C01.CrcFmt at hcf
    cases crc with
    | none =>
      have := ((Props.C16.C16_strip st.format (hdr ++ body) [0, 0, 0, 0] rfl).1 (Or.inl hcf)).1
      simpa using this
    | some c =>
      have := (Props.C16.C16_strip st.format (hdr ++ body) c hcf.2).2.1 hcf.1
      simpa using this
  have h4 : evType (hdr ++ body) = .ok 2 := by rw [← hH, GV.C16.hdr_typ]; rfl
  have h5 : evNextPosition (hdr ++ body) = .ok (next % 256 ^ 4) := by rw [← hH, GV.C16.hdr_next]
  have h6 : evTimestamp (hdr ++ body) = .ok (m.ts % 256 ^ 4) := by rw [← hH, GV.C16.hdr_ts]
  have hq : query st.format (hdr ++ body) = .ok ⟨db, Props.C16.charsetOf vars, sql⟩ := by
    have := Props.C16.C16_query st.format (GV.C01b.hl19 hr) hdr hh 1 0 0 vars [] db sql hk (by simp)
      (by simpa using hlen) hdb
    simpa [hB] using this
  simp only [classify, h1, h2, h3, h4, h5, h6, hq, ofRes, GV.C01b.notZero hr, Facts.eFormatDescriptionEvent,
    Facts.eXIDEvent, Facts.eRotateEvent, Facts.eQueryEvent]
  simp

/-! ### next_position is irrelevant -/

theorem ofLE_le4 (X : Bytes) (h : X.length = 4) : ofLE 4 (Bytes.le X) = X := by
  match X, h with
  | [a, b, c, d], _ =>
    have ha := a.toNat_lt; have hb := b.toNat_lt; have hc := c.toNat_lt; have hd := d.toNat_lt
    simp only [ofLE, Bytes.le]
    have e1 : (a.toNat + 256 * (b.toNat + 256 * (c.toNat + 256 * (d.toNat + 256 * 0)))) % 256 = a.toNat := by omega
    have e2 : (a.toNat + 256 * (b.toNat + 256 * (c.toNat + 256 * (d.toNat + 256 * 0)))) / 256
        = b.toNat + 256 * (c.toNat + 256 * (d.toNat + 256 * 0)) := by omega
    have e3 : (b.toNat + 256 * (c.toNat + 256 * (d.toNat + 256 * 0))) % 256 = b.toNat := by omega
    have e4 : (b.toNat + 256 * (c.toNat + 256 * (d.toNat + 256 * 0))) / 256 = c.toNat + 256 * (d.toNat + 256 * 0) := by omega
    have e5 : (c.toNat + 256 * (d.toNat + 256 * 0)) % 256 = c.toNat := by omega
    have e6 : (c.toNat + 256 * (d.toNat + 256 * 0)) / 256 = d.toNat + 256 * 0 := by omega
    have e7 : (d.toNat + 256 * 0) % 256 = d.toNat := by omega
    rw [e1, e2, e3, e4, e5, e6, e7]
    simp

/-- the validity gate and the type byte do not look at bytes 13..16 (next_position) -/
theorem valid_type_next_irrel (A N X Z : Bytes) (hA : A.length = 13) (hN : N.length = 4) (hX : X.length = 4) :
    isValid (A ++ X ++ Z) = isValid (A ++ N ++ Z) ∧ evType (A ++ X ++ Z) = evType (A ++ N ++ Z) := by
  constructor
  · unfold isValid evLength readLE Bytes.slice
    simp [hA, hN, hX, List.drop_append]
  · unfold evType Bytes.get
    simp [hA, List.getElem?_append_left]

theorem setNext_split (nz pred : Bytes) (h1 : 19 ≤ nz.length) (h2 : 19 ≤ pred.length) :
    setNext nz pred = nz.take 13 ++ (pred.drop 13).take 4 ++ nz.drop 17 ∧
    nz = nz.take 13 ++ (nz.drop 13).take 4 ++ nz.drop 17 := by
  constructor
  · unfold setNext
    have : ¬ (nz.length < 19 ∨ pred.length < 19) := by omega
    simp [this]
  · have : nz.drop 17 = (nz.drop 13).drop 4 := by simp
    rw [this, List.append_assoc, List.take_append_drop, List.take_append_drop]

/-- rewriting next_position (as the driver does) keeps validity and type of any packet -/
theorem setNext_valid_type (nz pred : Bytes) :
    isValid (setNext nz pred) = isValid nz ∧ evType (setNext nz pred) = evType nz := by
  by_cases h : nz.length < 19 ∨ pred.length < 19
  · have : setNext nz pred = nz := by unfold setNext; simp [h]
    rw [this]; exact ⟨rfl, rfl⟩
  · have h1 : 19 ≤ nz.length := by omega
    have h2 : 19 ≤ pred.length := by omega
    obtain ⟨e1, e2⟩ := setNext_split nz pred h1 h2
    rw [e1]
    have := valid_type_next_irrel (nz.take 13) ((nz.drop 13).take 4) ((pred.drop 13).take 4) (nz.drop 17)
      (by simp; omega) (by simp; omega) (by simp; omega)
    rw [← e2] at this
    exact this

theorem header_split (ts typ sid len next flags : Nat) (R : Bytes) :
    W.header ts typ sid len next flags ++ R
      = (ofLE 4 ts ++ [UInt8.ofNat typ] ++ ofLE 4 sid ++ ofLE 4 len) ++ ofLE 4 next ++ (ofLE 2 flags ++ R) := by
  simp [W.header]

theorem take_drop_mid (A N Z : Bytes) (hA : A.length = 13) (hN : N.length = 4) :
    (A ++ N ++ Z).take 13 = A ∧ (A ++ N ++ Z).drop 17 = Z := by
  constructor
  · rw [List.append_assoc, List.take_append_of_le_length (by omega), List.take_of_length_le (by omega)]
  · have : 17 = (A ++ N).length := by simp [hA, hN]
    rw [this, List.drop_left']
    rfl

/-- on a packet of the Spec's event writer, rewriting next_position is writing the event with another override -/
theorem setNext_event (crc : Option Bytes) (m : W.EvMeta) (typ start : Nat) (body : Bytes) (nx : Option Nat)
    (pred : Bytes) (hp : 19 ≤ pred.length) :
    setNext (W.event crc m typ start body nx).1 pred
      = (W.event crc m typ start body (some (Bytes.le ((pred.drop 13).take 4)))).1 := by
  have hX : ((pred.drop 13).take 4).length = 4 := by simp; omega
  have hlen : 19 ≤ (W.event crc m typ start body nx).1.length := by
    rw [event_fst]; simp [GV.C16.header_length]
  rw [(setNext_split _ pred hlen hp).1, event_fst, event_fst, header_split, header_split]
  generalize (pred.drop 13).take 4 = X at hX
  obtain ⟨e1, e2⟩ := take_drop_mid (ofLE 4 m.ts ++ [UInt8.ofNat typ] ++ ofLE 4 m.sid ++
    ofLE 4 (19 + body.length + Props.C16.crcLen crc))
    (ofLE 4 (nx.getD (start + (19 + body.length + Props.C16.crcLen crc)))) (ofLE 2 m.flags ++ (body ++ crc.getD []))
    (by simp) (by simp)
  rw [e1, e2, Option.getD_some, ofLE_le4 X hX]

/-! ### the two kinds of noise packets -/

theorem fmtSeen_of_ready {cfg : W.Cfg} {st : PState} (hr : Ready cfg st) : FmtSeen st := by
  refine ⟨GV.C01b.notZero hr, ?_⟩
  have hf : st.format = fmtOf cfg := hr
  rw [hf]
  cases hc : cfg.crc <;> simp [fmtOf, hc]

/-- an event of the Spec's event writer — any type code below 256, any body, any header fields, any next_position
    override, with or without checksum — is valid and shows its type, provided its length fits the 4-byte field -/
theorem event_valid_type (crc : Option Bytes) (m : W.EvMeta) (typ start : Nat) (body : Bytes) (nx : Option Nat)
    (ht : typ < 256) (htot : 19 + body.length + Props.C16.crcLen crc < 2 ^ 32) :
    isValid (W.event crc m typ start body nx).1 = true ∧ evType (W.event crc m typ start body nx).1 = .ok typ := by
  rw [event_fst]
  have hcl : Props.C16.crcLen crc = (crc.getD []).length := by cases crc <;> rfl
  refine ⟨C01.isValid_hdr _ _ _ _ _ _ _ (by simp [hcl]; omega) htot, ?_⟩
  rw [GV.C16.hdr_typ, UInt8.toNat_ofNat']
  congr 1
  omega

/-- the packets shown to be no-ops once the format description of the Spec master (`fmtOf cfg`) has been seen -/
inductive NoiseKind (cfg : W.Cfg) : Bytes → Prop where
  /-- ANY valid event (`isValid`: at least 19 bytes, its length field says its length) whose type code is not one the
      parser dispatches on — whatever its body, timestamp, server id, flags, next_position; whether it carries a
      checksum or not, whatever `cfg.crc` says -/
  | unhandled (b : Bytes) (t : Nat) (hv : isValid b = true) (ht : evType b = .ok t) (hty : t ∉ handledTypes) :
      NoiseKind cfg b
  /-- a QUERY event of the Spec's writers (`W.event`, `W.queryBody`: the event `W.stmtEv` lays out) — any header
      fields, ANY next_position override — with status variables the decoder knows, a checksum iff the format announces
      one, whose statement category is none of BEGIN / COMMIT / ROLLBACK / a DDL / a DML (`DSpec.unknownCat`) -/
  | unknownStmt (crc : Option Bytes) (hc : crcOK cfg crc) (m : W.EvMeta) (start : Nat) (nx : Option Nat)
      (vars : List W.StatusVar) (db sql : Bytes) (hk : ∀ v ∈ vars, Props.C16.KnownVar v)
      (hlen : (vars.flatMap W.statusVarBytes).length < 65536) (hdb : db.length < 256)
      (htot : 19 + (W.queryBody 1 0 0 vars db sql).length + Props.C16.crcLen crc < 2 ^ 32)
      (hcat : DSpec.unknownCat (statementCategory sql)) :
      NoiseKind cfg (W.event crc m 2 start (W.queryBody 1 0 0 vars db sql) nx).1

/-- both kinds are no-ops in EVERY state that has seen the format: whatever the position, the open transaction
    (`tran`), the autocommit flag and the table cache -/
theorem noiseKind_noop (env : Env) {cfg : W.Cfg} {b : Bytes} (h : NoiseKind cfg b) : NoOp env (Ready cfg) b := by
  intro st hr
  cases h with
  | unhandled _ t hv ht hty =>
    simp only [stepEvent, classify_unhandled env st b t hv ht hty (fmtSeen_of_ready hr), stepD]
  | unknownStmt crc hc m start nx vars db sql hk hlen hdb htot hcat =>
    simp only [stepEvent, classify_stmt_writer env st cfg hr crc hc m start nx vars db sql hk hlen hdb htot]
    exact sd_unknown st _ _ _ _ hcat

/-- both kinds are closed under the driver's rewriting of next_position -/
theorem noiseKind_setNext {cfg : W.Cfg} {b : Bytes} (h : NoiseKind cfg b) (pred : Bytes) :
    NoiseKind cfg (setNext b pred) := by
  cases h with
  | unhandled _ t hv ht hty =>
    obtain ⟨h1, h2⟩ := setNext_valid_type b pred
    exact .unhandled _ t (h1.trans hv) (h2.trans ht) hty
  | unknownStmt crc hc m start nx vars db sql hk hlen hdb htot hcat =>
    by_cases hp : 19 ≤ pred.length
    · rw [setNext_event crc m 2 start _ nx pred hp]
      exact .unknownStmt crc hc m start _ vars db sql hk hlen hdb htot hcat
    · have : setNext (W.event crc m 2 start (W.queryBody 1 0 0 vars db sql) nx).1 pred
          = (W.event crc m 2 start (W.queryBody 1 0 0 vars db sql) nx).1 := by
        unfold setNext
        have : pred.length < 19 := by omega
        simp [this]
      rw [this]
      exact .unknownStmt crc hc m start nx vars db sql hk hlen hdb htot hcat

/-! ## Part C — the stream of the Spec master -/

theorem noOp_mono {env : Env} {P Q : PState → Prop} (h : ∀ st, Q st → P st) {b : Bytes} (hb : NoOp env P b) :
    NoOp env Q b := fun st hq => hb st (h st hq)

/-- no padding at all: `D.padPacket` with no rows change to look for is the identity -/
theorem rowsPad_nil (env : Env) (cfg : W.Cfg) (sv : List W.RowsChange) : RowsPad env cfg [] sv := by
  intro st _ c _ _ off _
  rfl

/-- every packet of the laid-out units keeps the invariant of GV/Lemmas/C09c.lean (format seen, the table cache holds
    tables of the served rows changes only) -/
theorem laid_keeps (env : Env) (cfg : W.Cfg) (us : List W.Unit) (hu : ∀ u ∈ us, UnitOK cfg u)
    (htb : ∀ c1 ∈ histRows us, ∀ c2 ∈ histRows us, c1.table.id = c2.table.id → c1.table = c2.table)
    (hm : MapperAgrees env us) (f : Bytes) (o : Nat) (hb : Bnd (W.layoutAux cfg (us.flatMap (W.unitEvs cfg)) f o)) :
    ∀ x ∈ (W.layoutAux cfg (us.flatMap (W.unitEvs cfg)) f o).map (·.bytes), Keeps env (PInv cfg (histRows us)) x := by
  intro b hb' st hI
  obtain ⟨x, hx, rfl⟩ := List.mem_map.mp hb'
  obtain ⟨_, h2, h3⟩ := stepOK_laid env cfg [] us hu htb hm (rowsPad_nil env cfg _) f o hb x hx st hI
  exact ⟨h2, h3⟩

/-- the shape of a dump: the artificial ROTATE (skipped), a FORMAT_DESCRIPTION event, then packets that all keep `PInv` -/
theorem serve_keeps (cfg : W.Cfg) (env : Env) (h : W.History) (p : W.Pos) (hwf : WFFrom cfg h p) (hl : Lands cfg h p)
    (hm : MapperAgrees env (unitsFrom cfg h p)) :
    ∃ (r f : Bytes) (l : List Bytes) (sv : List W.RowsChange), W.serve cfg h p = r :: f :: l ∧
      stepEvent env (PState.init (posOf p)) r = .cont (PState.init (posOf p)) ∧
      stepEvent env (PState.init (posOf p)) f = .cont { PState.init (posOf p) with format := fmtOf cfg } ∧
      PInv cfg sv { PState.init (posOf p) with format := fmtOf cfg } ∧
      ∀ x ∈ l, Keeps env (PInv cfg sv) x := by
  have hart := C01_classify_fde env (PState.init (posOf p)) cfg 4 (some 0) (by decide)
    (by intro n hn; cases hn; decide)
  have hreal := C01_classify_fde env (PState.init (posOf p)) cfg 4 none (by decide) (by simp)
  obtain ⟨hlen, hu, htb, _, hoff⟩ := hwf
  have hfake := cl_fakeRot_first env (PState.init (posOf p)) cfg rfl 0 p.offset p.file hlen
  have hI : ∀ sv, PInv cfg sv { PState.init (posOf p) with format := fmtOf cfg } := by
    intro sv
    refine ⟨rfl, ?_⟩
    intro id tc hf
    simp [PState.init, findTable] at hf
  rcases served_shape cfg h p hl with hnil | ⟨us₁, us₂, hsplit, hus, hcase⟩
  · refine ⟨_, _, _, [], serve_nil cfg h p hnil, by simp [stepEvent, hfake, stepD], by simp [stepEvent, hart, stepD],
      hI _, ?_⟩
    intro x hx; cases hx
  · rw [hus] at hu htb hm
    rcases hcase with ⟨x, rest, o, hfp, hnf, hlay⟩ | hlay
    · have hs := serve_unit cfg h p x rest hfp hnf
      change ∀ y ∈ served cfg h p, y.next < 2 ^ 32 at hoff
      rw [← hfp] at hs
      rw [hlay] at hoff hs
      exact ⟨_, _, _, histRows us₂, hs, by simp [stepEvent, hfake, stepD], by simp [stepEvent, hart, stepD], hI _,
        laid_keeps env cfg us₂ hu htb hm _ _ hoff⟩
    · have hs := serve_fileHead cfg h p _ _ hlay rfl
      change ∀ y ∈ served cfg h p, y.next < 2 ^ 32 at hoff
      rw [hlay] at hoff
      have hb2 := (bnd_cons hoff).2
      have hbytes : (fdeL cfg p.file).bytes = (W.fdeEvent cfg 4 none).1 := rfl
      rw [hbytes] at hs
      exact ⟨_, _, _, histRows us₂, hs, by simp [stepEvent, hfake, stepD], by simp [stepEvent, hreal, stepD], hI _,
        laid_keeps env cfg us₂ hu htb hm _ _ hb2⟩

/-- stream level: no-op packets woven into (a prefix of) the dump anywhere behind its second packet — the
    FORMAT_DESCRIPTION event — change nothing: any handler, ANY continuation `tail` of the input -/
theorem noise_lands (cfg : W.Cfg) (env : Env) (h : W.History) (p : W.Pos) (hwf : WFFrom cfg h p) (hl : Lands cfg h p)
    (hm : MapperAgrees env (unitsFrom cfg h p)) (w : List Pkt) (m : Nat) (hw : origs w = (W.serve cfg h p).take m)
    (hhead : noises (w.take 2) = []) (hn : ∀ b ∈ noises w, NoOp env (Ready cfg) b)
    (acc : Transaction → Bool) (tail : List Input) :
    parseEvents env acc (PState.init (posOf p)) ((flat w).map Input.event ++ tail)
      = parseEvents env acc (PState.init (posOf p)) (((W.serve cfg h p).take m).map Input.event ++ tail) := by
  obtain ⟨r, f, l, sv, hs, h1, h2, hI, hk⟩ := serve_keeps cfg env h p hwf hl hm
  rw [← hw]
  rw [hs] at hw
  match w, hw, hhead, hn with
  | [], _, _, _ => rfl
  | .noise b :: w1, _, hhead, _ => simp [noises] at hhead
  | [.orig a], _, _, _ => rfl
  | .orig a :: .noise b :: w2, _, hhead, _ => simp [noises] at hhead
  | .orig a :: .orig a2 :: w2, hw, _, hn =>
    match m, hw with
    | 0, hw => simp [origs] at hw
    | 1, hw => simp [origs] at hw
    | m + 2, hw =>
      simp only [origs, List.take_succ_cons, List.cons.injEq] at hw
      obtain ⟨rfl, rfl, hw2⟩ := hw
      simp only [flat, List.map_cons, Pkt.bytes, List.cons_append, parseEvents, origs, h1, h2]
      refine weave_run env (PInv cfg sv) acc tail w2 _ hI ?_ ?_
      · intro x hx
        rw [hw2] at hx
        exact hk x (List.mem_of_mem_take hx)
      · intro b hb
        exact noOp_mono (fun st hst => hst.fmt) (hn b (by simpa [noises] using hb))

theorem noises_take_two (w : List Pkt) (k : Nat) (h : noises (w.take 2) = []) : noises ((w.take k).take 2) = [] := by
  apply List.eq_nil_iff_forall_not_mem.mpr
  intro b hb
  have e : (w.take k).take 2 = (w.take 2).take k := by rw [List.take_take, List.take_take, Nat.min_comm]
  rw [e] at hb
  have := noises_take_subset (w.take 2) k b hb
  rw [h] at this
  cases this

/-- … with a cut k of the WOVEN stream (it may fall on a noise packet) and a quiet ending: the Spec's account of the
    original packets that arrived -/
theorem noise_outcome (cfg : W.Cfg) (env : Env) (h : W.History) (p : W.Pos) (hwf : WFFrom cfg h p) (hl : Lands cfg h p)
    (hm : MapperAgrees env (unitsFrom cfg h p)) (w : List Pkt) (hw : origs w = W.serve cfg h p)
    (hhead : noises (w.take 2) = []) (hn : ∀ b ∈ noises w, NoOp env (Ready cfg) b)
    (acc : Transaction → Bool) (k : Nat) (e : Bool) (tail : List Input) (ht : EndsWith env e tail) :
    parseEvents env acc (PState.init (posOf p)) (((flat w).take k).map Input.event ++ tail)
      = specOut env.ext acc e ((served cfg h p).take (origCount w k - preamble cfg h p)) p := by
  rw [flat_take, noise_lands cfg env h p hwf hl hm (w.take k) (origCount w k) (by rw [origs_take, hw])
    (noises_take_two w k hhead) (fun b hb => hn b (noises_take_subset w k b hb)) acc tail]
  exact outcome_lands cfg env h p hwf hl hm acc e tail ht _

theorem preamble_pos (cfg : W.Cfg) (h : W.History) (p : W.Pos) : 1 ≤ preamble cfg h p := by
  unfold preamble served
  rw [serve_eq]
  simp only [List.length_cons, List.length_append, List.length_map]
  omega

end C02c
end GV
