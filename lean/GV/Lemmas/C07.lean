import GV.Model.Conn
import GV.Lemmas.Dec
/- helper lemmas for GV/Props/C07.lean -/
namespace GV

end GV
