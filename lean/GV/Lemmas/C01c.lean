import GV.Props.C01b
/-
  Definitions and helper lemmas for GV/Props/C01c.lean (byte-level fidelity for whole histories).
  The first section holds the definitions the property statement is made of.
-/
namespace GV
namespace C01c
open Bytes M GV.Props.C01 GV.Props.C01b

/-! ### the statement's vocabulary -/

/-- a Spec position as the replica's position (offsets are int64 there) -/
def posOf (p : W.Pos) : Position := ⟨p.file, (p.offset : Int)⟩

/-- the StreamEvent a statement change must be delivered as -/
def seOfStmt (s : W.StmtChange) : StreamEvent :=
  { typ := s.cat, table := ([], []), query := some ⟨s.db, s.charset, s.sql⟩, timestamp := s.ts,
    rowValues := [], rowIdentifies := [] }

def seOfChange (E : Ext) : W.Change → StreamEvent
  | .rows c => seOfRows E c
  | .stmt s => seOfStmt s

/-- the Transaction an expected transaction must be delivered as -/
def toTx (E : Ext) (t : W.ETx) : Transaction :=
  ⟨posOf t.now, posOf t.next, t.ts, t.changes.map (seOfChange E)⟩

/-- a statement the parser keeps as a change: DDL (boundary) or statement-format DML -/
def isChangeCat (cat : Nat) : Prop := isBoundaryDDL cat = true ∨ isDML cat = true

/-- a QUERY event the master can write and the replica reads back exactly -/
structure StmtOK (s : W.StmtChange) : Prop where
  vars : ∀ v ∈ s.vars, Props.C16.KnownVar v
  varsLen : (s.vars.flatMap W.statusVarBytes).length < 65536
  charset : s.charset = Props.C16.charsetOf s.vars
  db : s.db.length < 256
  ts : s.ts < 2 ^ 32
  cat : statementCategory s.sql = s.cat

def ChangeOK (cfg : W.Cfg) : W.Change → Prop
  | .rows c => RowsOK cfg c ∧ c.rows ≠ []
  | .stmt s => StmtOK s ∧ isChangeCat s.cat

def CloserOK : W.Closer → Prop
  | .xid _ => True
  | .commit sql => statementCategory sql = Facts.StatementCommit
  | .rollback sql => statementCategory sql = Facts.StatementRollback

/-- event types `classify` has a branch for (everything else is skipped) -/
def handledTypes : List Nat := [15, 16, 4, 2, 19, 23, 24, 25, 30, 31, 32, 13, 5, 29]

def UnitOK (cfg : W.Cfg) : W.Unit → Prop
  | .tx b cs close ts =>
      statementCategory b = Facts.StatementBegin ∧ (∀ c ∈ cs, ChangeOK cfg c) ∧ CloserOK close ∧ ts < 2 ^ 32
  | .ddl s => StmtOK s ∧ isChangeCat s.cat
  | .stmtDML s => StmtOK s ∧ isChangeCat s.cat
  | .autoRows c => RowsOK cfg c ∧ c.rows ≠ []
  | .rotate _ => True
  | .restart f => f.length < 2 ^ 31
  | .gtid _ _ => True
  | .anonGtid => True
  | .prevGtids _ => True
  | .heartbeat => True
  | .unknownEvent t _ => t < 256 ∧ t ∉ handledTypes
  | .unknownStmt s => StmtOK s ∧ DSpec.unknownCat s.cat

def changeRows : List W.Change → List W.RowsChange
  | [] => []
  | .rows c :: cs => c :: changeRows cs
  | .stmt _ :: cs => changeRows cs

def unitRows : W.Unit → List W.RowsChange
  | .tx _ cs _ _ => changeRows cs
  | .autoRows c => [c]
  | _ => []

/-- all rows changes of a history, in log order (rolled-back ones included: their events are in the log) -/
def histRows (h : W.History) : List W.RowsChange := h.flatMap unitRows

/-- every rows change is preceded by its TABLE_MAP event unless its table id was announced earlier in the log -/
def annOK : List Nat → List W.RowsChange → Prop
  | _, [] => True
  | known, c :: cs => (c.announce = true ∨ c.table.id ∈ known) ∧ annOK (c.table.id :: known) cs

structure WFHist (cfg : W.Cfg) (h : W.History) : Prop where
  units : ∀ u ∈ h, UnitOK cfg u
  /-- a table id names one table throughout the history -/
  tables : ∀ c1 ∈ histRows h, ∀ c2 ∈ histRows h, c1.table.id = c2.table.id → c1.table = c2.table
  announced : annOK [] (histRows h)
  /-- every event ends below 4 GiB in its file -/
  offsets : ∀ e ∈ W.layout cfg h, e.next < 2 ^ 32

/-- the table mapper knows every table of the history, with the names / signedness the Spec table carries -/
def MapperAgrees (env : Env) (h : W.History) : Prop :=
  ∀ c ∈ histRows h, env.mapper c.table.db c.table.name = some (infoOf c.table)

/-! ### the goal as a predicate on a laid-out event list, and its one-event steps -/

/-- from state `st`, with the Spec's current position `cur`, the parser fed the laid-out events `l` (then the closed
    channel) calls the handler with exactly the expected transactions and returns the expected position -/
def Good (env : Env) (st : PState) (cur : W.Pos) (l : List W.Laid) : Prop :=
  parseEvents env (fun _ => true) st (l.map (fun e => Input.event e.bytes) ++ [Input.closed])
    = ⟨(W.expectedAux l cur).map (toTx env.ext), (W.expectedAux l cur).map (toTx env.ext),
       posOf (W.endPosAux l cur), false, false⟩

theorem good_nil (env : Env) (st : PState) (cur : W.Pos) (hp : st.pos = posOf cur) : Good env st cur [] := by
  simp [Good, parseEvents, W.expectedAux, W.endPosAux, hp]

theorem good_cont (env : Env) (st st' : PState) (cur : W.Pos) (e : W.Laid) (l : List W.Laid) (d : Decoded)
    (hc : classify env st e.bytes = d) (hs : stepD st d = .cont st')
    (ht : e.tag = .none ∨ e.tag = .fileHead) (hg : Good env st' cur l) : Good env st cur (e :: l) := by
  unfold Good at hg ⊢
  simp only [List.map_cons, List.cons_append, parseEvents, stepEvent, hc, hs]
  rw [hg]
  rcases ht with ht | ht <;> simp [W.expectedAux, W.endPosAux, ht]

theorem good_rot (env : Env) (st st' : PState) (cur : W.Pos) (e : W.Laid) (l : List W.Laid) (d : Decoded) (f : Bytes)
    (hc : classify env st e.bytes = d) (hs : stepD st d = .cont st')
    (ht : e.tag = .rotateTo f) (hg : Good env st' ⟨f, 4⟩ l) : Good env st cur (e :: l) := by
  unfold Good at hg ⊢
  simp only [List.map_cons, List.cons_append, parseEvents, stepEvent, hc, hs]
  rw [hg]
  simp [W.expectedAux, W.endPosAux, ht]

theorem good_deliver (env : Env) (st acc : PState) (cur : W.Pos) (e : W.Laid) (l : List W.Laid) (d : Decoded)
    (cs : List W.Change)
    (hc : classify env st e.bytes = d)
    (hs : stepD st d = .deliver (toTx env.ext ⟨cur, ⟨e.file, e.next⟩, e.ts, cs⟩) acc)
    (ht : e.tag = .commit cs) (hg : Good env acc ⟨e.file, e.next⟩ l) : Good env st cur (e :: l) := by
  unfold Good at hg ⊢
  simp only [List.map_cons, List.cons_append, parseEvents, stepEvent, hc, hs, if_true]
  rw [hg]
  simp [W.expectedAux, W.endPosAux, ht]

/-! ### unfolding the layout -/

/-- length of the checksum the Spec master appends at offset `off` -/
def crcN (cfg : W.Cfg) (off : Nat) : Nat := Props.C16.crcLen (W.crcOf cfg off)

/-- where an event with this body laid at `off` ends -/
def endOf (cfg : W.Cfg) (off : Nat) (body : Bytes) : Nat := off + (19 + body.length + crcN cfg off)

def bytesAt (cfg : W.Cfg) (off typ ts : Nat) (body : Bytes) : Bytes :=
  (W.event (W.crcOf cfg off) { ts := ts } typ off body).1

theorem event_snd (crc : Option Bytes) (m : W.EvMeta) (typ start : Nat) (body : Bytes) (nx : Option Nat) :
    (W.event crc m typ start body nx).2 = start + (19 + body.length + Props.C16.crcLen crc) := by
  cases crc <;> rfl

theorem layoutAux_none (cfg : W.Cfg) (typ : Nat) (body : Bytes) (ts : Nat) (us : Bool) (es : List W.AEv)
    (file : Bytes) (off : Nat) :
    W.layoutAux cfg (⟨typ, body, ts, .none, us⟩ :: es) file off
      = ⟨file, off, endOf cfg off body, bytesAt cfg off typ ts body, ts, .none, us⟩
          :: W.layoutAux cfg es file (endOf cfg off body) := by
  simp only [W.layoutAux, endOf, crcN, bytesAt, event_snd]

theorem layoutAux_commit (cfg : W.Cfg) (typ : Nat) (body : Bytes) (ts : Nat) (cs : List W.Change) (us : Bool)
    (es : List W.AEv) (file : Bytes) (off : Nat) :
    W.layoutAux cfg (⟨typ, body, ts, .commit cs, us⟩ :: es) file off
      = ⟨file, off, endOf cfg off body, bytesAt cfg off typ ts body, ts, .commit cs, us⟩
          :: W.layoutAux cfg es file (endOf cfg off body) := by
  simp only [W.layoutAux, endOf, crcN, bytesAt, event_snd]

/-- the artificial ROTATE the dump thread sends when it moves on to file `f` -/
def fakeRotBytes (cfg : W.Cfg) (seed : Nat) (pos : Nat) (f : Bytes) : Bytes :=
  (W.event (W.crcOf cfg seed) { flags := 0x20 } 4 0 (W.rotateBody pos f) (some 0)).1

theorem layoutAux_rotate (cfg : W.Cfg) (typ : Nat) (body : Bytes) (ts : Nat) (f : Bytes) (us : Bool)
    (es : List W.AEv) (file : Bytes) (off : Nat) :
    W.layoutAux cfg (⟨typ, body, ts, .rotateTo f, us⟩ :: es) file off
      = ⟨file, off, endOf cfg off body, bytesAt cfg off typ ts body, ts, .rotateTo f, us⟩
          :: ⟨file, endOf cfg off body, endOf cfg off body, fakeRotBytes cfg (endOf cfg off body) 4 f, 0, .rotateTo f, false⟩
          :: ⟨f, 4, (W.fdeEvent cfg 4 none).2, (W.fdeEvent cfg 4 none).1, 0, .fileHead, false⟩
          :: W.layoutAux cfg es f (W.fdeEvent cfg 4 none).2 := by
  simp only [W.layoutAux, endOf, crcN, bytesAt, event_snd, fakeRotBytes]

theorem layoutAux_restart (cfg : W.Cfg) (typ : Nat) (body : Bytes) (ts : Nat) (f : Bytes) (us : Bool)
    (es : List W.AEv) (file : Bytes) (off : Nat) :
    W.layoutAux cfg (⟨typ, body, ts, .stopThenRotateTo f, us⟩ :: es) file off
      = ⟨file, off, endOf cfg off body, bytesAt cfg off typ ts body, ts, .none, us⟩
          :: ⟨file, endOf cfg off body, endOf cfg off body, fakeRotBytes cfg (endOf cfg off body) 4 f, 0, .rotateTo f, false⟩
          :: ⟨f, 4, (W.fdeEvent cfg 4 none).2, (W.fdeEvent cfg 4 none).1, 0, .fileHead, false⟩
          :: W.layoutAux cfg es f (W.fdeEvent cfg 4 none).2 := by
  simp only [W.layoutAux, endOf, crcN, bytesAt, event_snd, fakeRotBytes]

/-! ### classifying the events the Spec master lays out -/

theorem crcOf_ok (cfg : W.Cfg) (off : Nat) : crcOK cfg (W.crcOf cfg off) := by
  unfold W.crcOf
  cases h : cfg.crc <;> simp [crcOK, h]

theorem evOK_at (cfg : W.Cfg) (off ts : Nat) (body : Bytes) (hts : ts < 2 ^ 32) (hb : endOf cfg off body < 2 ^ 32) :
    EvOK (W.crcOf cfg off) { ts := ts } off body :=
  ⟨hts, (by show (1 : Nat) < 2 ^ 32; decide), (by show (0 : Nat) < 2 ^ 16; decide), hb⟩

theorem xid_gen (env : Env) (st : PState) (cfg : W.Cfg) (hr : Ready cfg st) (crc : Option Bytes)
    (hc : crcOK cfg crc) (m : W.EvMeta) (start xid : Nat) (hok : EvOK crc m start (W.xidBody xid)) :
    classify env st (W.event crc m 16 start (W.xidBody xid)).1
      = .xid (start + (19 + 8 + Props.C16.crcLen crc)) m.ts := by
  have := C01_classify_xid env st cfg hr crc hc m start xid hok
  cases crc <;> exact this

theorem rows_gen (env : Env) (st : PState) (cfg : W.Cfg) (hr : Ready cfg st) (crc : Option Bytes)
    (hc : crcOK cfg crc) (m : W.EvMeta) (start : Nat) (c : W.RowsChange) (hrows : RowsOK cfg c) (hne : c.rows ≠ [])
    (hts : m.ts = c.ts)
    (hok : EvOK crc m start (W.rowsBody c.kind cfg.rowsV2 (idw cfg) c.table.id c.flags c.extra c.table.cols
                              c.presentBefore c.presentAfter c.rows))
    (hcache : findTable st.tables c.table.id = some ⟨tmOf c.table, infoOf c.table⟩) :
    classify env st (W.event crc m (W.rowsEventType c.kind cfg.rowsV2) start
        (W.rowsBody c.kind cfg.rowsV2 (idw cfg) c.table.id c.flags c.extra c.table.cols c.presentBefore c.presentAfter c.rows)).1
      = .rows (seOfRows env.ext c)
          (start + (19 + (W.rowsBody c.kind cfg.rowsV2 (idw cfg) c.table.id c.flags c.extra c.table.cols
                            c.presentBefore c.presentAfter c.rows).length + Props.C16.crcLen crc))
          c.ts := by
  have := C01_classify_rows env st cfg hr crc hc m start c hrows hne hts hok hcache
  cases crc <;> exact this

theorem cl_xid (env : Env) (st : PState) (cfg : W.Cfg) (hr : Ready cfg st) (off ts xid : Nat) (hts : ts < 2 ^ 32)
    (hb : endOf cfg off (W.xidBody xid) < 2 ^ 32) :
    classify env st (bytesAt cfg off 16 ts (W.xidBody xid)) = .xid (endOf cfg off (W.xidBody xid)) ts := by
  have := xid_gen env st cfg hr _ (crcOf_ok cfg off) { ts := ts } off xid (evOK_at cfg off ts _ hts hb)
  have hl : (W.xidBody xid).length = 8 := by simp [W.xidBody]
  rw [bytesAt, this, endOf, crcN, hl]

theorem cl_query (env : Env) (st : PState) (cfg : W.Cfg) (hr : Ready cfg st) (off ts : Nat) (vars : List W.StatusVar)
    (db sql : Bytes) (hk : ∀ v ∈ vars, Props.C16.KnownVar v) (hlen : (vars.flatMap W.statusVarBytes).length < 65536)
    (hdb : db.length < 256) (hts : ts < 2 ^ 32) (hb : endOf cfg off (W.queryBody 1 0 0 vars db sql) < 2 ^ 32) :
    classify env st (bytesAt cfg off 2 ts (W.queryBody 1 0 0 vars db sql))
      = .stmt (statementCategory sql) ⟨db, Props.C16.charsetOf vars, sql⟩
          (endOf cfg off (W.queryBody 1 0 0 vars db sql)) ts := by
  have hok := evOK_at cfg off ts _ hts hb
  obtain ⟨h1, h2, h3, h4, h5, h6⟩ := C01.pre st.format (W.crcOf cfg off) { ts := ts } 2 off _
    (GV.C01b.crc_pre hr (crcOf_ok cfg off)) (GV.C01b.meta_pre 2 (by decide) hok)
  have hq := Props.C16.C16_query st.format (GV.C01b.hl19 hr) _
    (C01.hdrOf_length (W.crcOf cfg off) { ts := ts } 2 off (W.queryBody 1 0 0 vars db sql))
    1 0 0 vars [] db sql hk (by simp) (by simpa using hlen) hdb
  simp only [List.append_nil] at hq
  simp only [bytesAt, classify, h1, h2, h3, h4, h5, h6, hq, ofRes, GV.C01b.notZero hr, Facts.eFormatDescriptionEvent,
    Facts.eXIDEvent, Facts.eRotateEvent, Facts.eQueryEvent]
  simp [endOf, crcN, Props.C16.crcLen]

theorem cl_rotate (env : Env) (st : PState) (cfg : W.Cfg) (hr : Ready cfg st) (off ts pos : Nat) (name : Bytes)
    (hp : pos < 2 ^ 63) (hts : ts < 2 ^ 32) (hb : endOf cfg off (W.rotateBody pos name) < 2 ^ 32) :
    classify env st (bytesAt cfg off 4 ts (W.rotateBody pos name)) = .rotate name (pos : Int) :=
  C01_classify_rotate env st cfg hr _ (crcOf_ok cfg off) { ts := ts } off pos name hp (evOK_at cfg off ts _ hts hb)

theorem cl_skip (env : Env) (st : PState) (cfg : W.Cfg) (hr : Ready cfg st) (off ts typ : Nat) (body : Bytes)
    (ht : typ < 256) (hty : typ ∉ handledTypes) (hts : ts < 2 ^ 32) (hb : endOf cfg off body < 2 ^ 32) :
    classify env st (bytesAt cfg off typ ts body) = .skip :=
  C01_classify_ignorable env st cfg hr _ (crcOf_ok cfg off) { ts := ts } off typ body ht hty (evOK_at cfg off ts _ hts hb)

theorem cl_tm_new (env : Env) (st : PState) (cfg : W.Cfg) (hr : Ready cfg st) (off ts : Nat) (t : W.TableDef)
    (ht : TableOK cfg t) (optional : Bytes) (hts : ts < 2 ^ 32)
    (hb : endOf cfg off (W.tableMapBody (if cfg.idw4 then 4 else 6) t.id 1 t.db t.name t.cols optional) < 2 ^ 32)
    (hnew : findTable st.tables t.id = none) (hm : env.mapper t.db t.name = some (infoOf t)) :
    classify env st (bytesAt cfg off 19 ts (W.tableMapBody (if cfg.idw4 then 4 else 6) t.id 1 t.db t.name t.cols optional))
      = .tableMap t.id ⟨tmOf t, infoOf t⟩ false :=
  C01_classify_tablemap_new env st cfg hr _ (crcOf_ok cfg off) { ts := ts } off t ht optional
    (evOK_at cfg off ts _ hts hb) hnew hm

theorem cl_tm_known (env : Env) (st : PState) (cfg : W.Cfg) (hr : Ready cfg st) (off ts : Nat) (t : W.TableDef)
    (ht : TableOK cfg t) (optional : Bytes) (hts : ts < 2 ^ 32)
    (hb : endOf cfg off (W.tableMapBody (if cfg.idw4 then 4 else 6) t.id 1 t.db t.name t.cols optional) < 2 ^ 32)
    (old : TableCache) (hold : findTable st.tables t.id = some old)
    (hsame : old.tableMap.database = t.db ∧ old.tableMap.name = t.name) :
    classify env st (bytesAt cfg off 19 ts (W.tableMapBody (if cfg.idw4 then 4 else 6) t.id 1 t.db t.name t.cols optional))
      = .tableMap t.id { old with tableMap := tmOf t } true :=
  C01_classify_tablemap_known_same_table env st cfg hr _ (crcOf_ok cfg off) { ts := ts } off t ht optional
    (evOK_at cfg off ts _ hts hb) old hold hsame

theorem cl_tm_reused (env : Env) (st : PState) (cfg : W.Cfg) (hr : Ready cfg st) (off ts : Nat) (t : W.TableDef)
    (ht : TableOK cfg t) (optional : Bytes) (hts : ts < 2 ^ 32)
    (hb : endOf cfg off (W.tableMapBody (if cfg.idw4 then 4 else 6) t.id 1 t.db t.name t.cols optional) < 2 ^ 32)
    (old : TableCache) (hold : findTable st.tables t.id = some old)
    (hdiff : ¬ (old.tableMap.database = t.db ∧ old.tableMap.name = t.name))
    (hm : env.mapper t.db t.name = some (infoOf t)) :
    classify env st (bytesAt cfg off 19 ts (W.tableMapBody (if cfg.idw4 then 4 else 6) t.id 1 t.db t.name t.cols optional))
      = .tableMap t.id ⟨tmOf t, infoOf t⟩ false :=
  C01_classify_tablemap_reused env st cfg hr _ (crcOf_ok cfg off) { ts := ts } off t ht optional
    (evOK_at cfg off ts _ hts hb) old hold hdiff hm

/-- an entry made from a Spec table is cached under that table's database and name -/
theorem same_of_eq {old : TableCache} {t : W.TableDef} (h : old = ⟨tmOf t, infoOf t⟩) :
    old.tableMap.database = t.db ∧ old.tableMap.name = t.name := by
  subst h; exact ⟨rfl, rfl⟩

theorem cl_rows (env : Env) (st : PState) (cfg : W.Cfg) (hr : Ready cfg st) (off : Nat) (c : W.RowsChange)
    (hrows : RowsOK cfg c) (hne : c.rows ≠ [])
    (hb : endOf cfg off (W.rowsBody c.kind cfg.rowsV2 (if cfg.idw4 then 4 else 6) c.table.id c.flags c.extra c.table.cols
            c.presentBefore c.presentAfter c.rows) < 2 ^ 32)
    (hcache : findTable st.tables c.table.id = some ⟨tmOf c.table, infoOf c.table⟩) :
    classify env st (bytesAt cfg off (W.rowsEventType c.kind cfg.rowsV2) c.ts
        (W.rowsBody c.kind cfg.rowsV2 (if cfg.idw4 then 4 else 6) c.table.id c.flags c.extra c.table.cols
            c.presentBefore c.presentAfter c.rows))
      = .rows (seOfRows env.ext c)
          (endOf cfg off (W.rowsBody c.kind cfg.rowsV2 (if cfg.idw4 then 4 else 6) c.table.id c.flags c.extra c.table.cols
            c.presentBefore c.presentAfter c.rows)) c.ts :=
  rows_gen env st cfg hr _ (crcOf_ok cfg off) { ts := c.ts } off c hrows hne rfl
    (evOK_at cfg off c.ts _ hrows.ts hb) hcache

/-- the artificial ROTATE (next_position 0, flag 0x20, checksummed when checksums are on): before the first FDE it is
    skipped; later it moves the position like any ROTATE -/
theorem fakeRot_facts (cfg : W.Cfg) (f : Format) (hf : f.checksumAlg = if cfg.crc then 1 else 0) (seed pos : Nat)
    (name : Bytes) (hl : 27 + name.length + (if cfg.crc then 4 else 0) < 2 ^ 32) :
    ∃ hdr : Bytes, hdr.length = 19 ∧
      isValid (fakeRotBytes cfg seed pos name) = true ∧ evType (fakeRotBytes cfg seed pos name) = .ok 4 ∧
      stripChecksum56 f (fakeRotBytes cfg seed pos name) = .ok (hdr ++ W.rotateBody pos name) ∧
      evType (hdr ++ W.rotateBody pos name) = .ok 4 := by
  have hbl : (W.rotateBody pos name).length = 8 + name.length := by simp [W.rotateBody]
  simp only [Nat.reducePow] at hl
  cases hc : cfg.crc with
  | false =>
    simp only [hc, Bool.false_eq_true, if_false] at hl
    have he : fakeRotBytes cfg seed pos name
        = W.header 0 4 1 (19 + (W.rotateBody pos name).length) 0 0x20 ++ W.rotateBody pos name := by
      simp [fakeRotBytes, W.crcOf, hc, W.event]
    rw [he]
    refine ⟨W.header 0 4 1 (19 + (W.rotateBody pos name).length) 0 0x20, GV.C16.header_length .., ?_, ?_, ?_, ?_⟩
    · exact C01.isValid_hdr _ _ _ _ _ _ _ rfl (by rw [hbl]; simp only [Nat.reducePow]; omega)
    · rw [GV.C16.hdr_typ]; rfl
    · simp [stripChecksum56, hf, hc]
    · rw [GV.C16.hdr_typ]; rfl
  | true =>
    simp only [hc, if_true] at hl
    have he : fakeRotBytes cfg seed pos name
        = (W.header 0 4 1 (19 + (W.rotateBody pos name).length + 4) 0 0x20 ++ W.rotateBody pos name)
            ++ ofLE 4 (seed * 2654435761 + 0xdeadbeef) := by
      simp [fakeRotBytes, W.crcOf, hc, W.event]
    rw [he]
    refine ⟨W.header 0 4 1 (19 + (W.rotateBody pos name).length + 4) 0 0x20, GV.C16.header_length .., ?_, ?_, ?_, ?_⟩
    · rw [List.append_assoc]
      exact C01.isValid_hdr _ _ _ _ _ _ _ (by simp; omega) (by rw [hbl]; simp only [Nat.reducePow]; omega)
    · rw [List.append_assoc, GV.C16.hdr_typ]; rfl
    · exact (Props.C16.C16_strip f _ _ (by simp)).2.1 (by simp [hf, hc])
    · rw [GV.C16.hdr_typ]; rfl

theorem cl_fakeRot (env : Env) (st : PState) (cfg : W.Cfg) (hr : Ready cfg st) (seed pos : Nat) (name : Bytes)
    (hp : pos < 2 ^ 63) (hl : 27 + name.length + (if cfg.crc then 4 else 0) < 2 ^ 32) :
    classify env st (fakeRotBytes cfg seed pos name) = .rotate name (pos : Int) := by
  have hfm : st.format = fmtOf cfg := hr
  obtain ⟨hdr, hh, h1, h2, h3, h4⟩ := fakeRot_facts cfg st.format (by rw [hfm]; rfl) seed pos name hl
  have hrot := Props.C16.C16_rotate st.format (GV.C01b.hl19 hr) hdr hh pos hp name
  simp only [classify, h1, h2, h3, h4, hrot, ofRes, GV.C01b.notZero hr, Facts.eFormatDescriptionEvent, Facts.eXIDEvent,
    Facts.eRotateEvent]
  simp

theorem cl_fakeRot_first (env : Env) (st : PState) (cfg : W.Cfg) (hz : st.format = Format.zero) (seed pos : Nat)
    (name : Bytes) (hl : 27 + name.length + (if cfg.crc then 4 else 0) < 2 ^ 32) :
    classify env st (fakeRotBytes cfg seed pos name) = .skip := by
  obtain ⟨hdr, hh, h1, h2, h3, h4⟩ := fakeRot_facts cfg (fmtOf cfg) rfl seed pos name hl
  have hzz : st.format.isZero = true := by rw [hz]; rfl
  simp only [classify, h1, h2, ofRes, hzz, Facts.eFormatDescriptionEvent, Facts.eRotateEvent]
  simp

/-! ### the state machine's answers, with explicit successor states -/

theorem sd_stmt_idle (st : PState) (ht : st.tran = none) (ha : st.autocommit = true) (cat : Nat) (q : Query)
    (next ts : Nat) (hc : isChangeCat cat) :
    stepD st (.stmt cat q next ts) = .deliver ⟨st.pos, { st.pos with offset := next }, ts, [DSpec.stmtEvent cat q ts]⟩
      { st with pos := { st.pos with offset := next }, tran := none, autocommit := true } := by
  have hb := SL.cat_ne_begin hc
  unfold isChangeCat at hc
  simp [stepD, commitStep, ha, ht, appendEv, hb, hc, DSpec.stmtEvent]

theorem sd_rows_idle (st : PState) (ht : st.tran = none) (ha : st.autocommit = true) (se : StreamEvent) (next ts : Nat) :
    stepD st (.rows se next ts) = .deliver ⟨st.pos, { st.pos with offset := next }, ts, [se]⟩
      { st with pos := { st.pos with offset := next }, tran := none, autocommit := true } := by
  simp [stepD, commitStep, ha, ht, appendEv]

theorem sd_stmt_tx (st : PState) (acc : List StreamEvent) (ht : st.tran = some acc) (ha : st.autocommit = false)
    (cat : Nat) (q : Query) (next ts : Nat) (hc : isChangeCat cat) :
    stepD st (.stmt cat q next ts) = .cont { st with tran := some (acc ++ [DSpec.stmtEvent cat q ts]) } := by
  have hb := SL.cat_ne_begin hc
  unfold isChangeCat at hc
  simp [stepD, ha, ht, appendEv, hb, hc, DSpec.stmtEvent]

theorem sd_rows_tx (st : PState) (acc : List StreamEvent) (ht : st.tran = some acc) (ha : st.autocommit = false)
    (se : StreamEvent) (next ts : Nat) :
    stepD st (.rows se next ts) = .cont { st with tran := some (acc ++ [se]) } := by
  simp [stepD, ha, ht, appendEv]

theorem sd_unknown (st : PState) (cat : Nat) (q : Query) (next ts : Nat) (hu : DSpec.unknownCat cat) :
    stepD st (.stmt cat q next ts) = .cont st := by
  obtain ⟨h1, h2, h3, h4, h5⟩ := hu
  simp [stepD, h1, h2, h3, h4, h5]

/-! ### the invariant between events -/

/-- what is fixed for the whole run: the tables of the history (`P`), one table per id, all known to the mapper -/
structure Ctx (env : Env) (P : W.TableDef → Prop) : Prop where
  uniq : ∀ t1 t2, P t1 → P t2 → t1.id = t2.id → t1 = t2
  mapper : ∀ t, P t → env.mapper t.db t.name = some (infoOf t)

/-- the parser state against the Spec's bookkeeping: format seen, same position, the layout's current file, the table
    cache holds only history tables (decoded map + mapper answer), and every id in `known` is cached -/
structure Inv (cfg : W.Cfg) (P : W.TableDef → Prop) (st : PState) (file : Bytes) (cur : W.Pos) (known : List Nat) :
    Prop where
  fmt : Ready cfg st
  pos : st.pos = posOf cur
  file : cur.file = file
  cache : ∀ id tc, findTable st.tables id = some tc → ∃ t, P t ∧ t.id = id ∧ tc = ⟨tmOf t, infoOf t⟩
  known : ∀ id ∈ known, findTable st.tables id ≠ none

theorem inv_tran {cfg : W.Cfg} {P : W.TableDef → Prop} {st : PState} {file : Bytes} {cur : W.Pos} {known : List Nat}
    (h : Inv cfg P st file cur known) (tr : Option (List StreamEvent)) (au : Bool) :
    Inv cfg P { st with tran := tr, autocommit := au } file cur known :=
  ⟨h.fmt, h.pos, h.file, h.cache, h.known⟩

theorem inv_tran' {cfg : W.Cfg} {P : W.TableDef → Prop} {st : PState} {file : Bytes} {cur : W.Pos} {known : List Nat}
    (h : Inv cfg P st file cur known) (tr : Option (List StreamEvent)) :
    Inv cfg P { st with tran := tr } file cur known :=
  ⟨h.fmt, h.pos, h.file, h.cache, h.known⟩

theorem inv_commit {cfg : W.Cfg} {P : W.TableDef → Prop} {st : PState} {file : Bytes} {cur : W.Pos} {known : List Nat}
    (h : Inv cfg P st file cur known) (next : Nat) :
    Inv cfg P { st with pos := { st.pos with offset := next }, tran := none, autocommit := true } file ⟨file, next⟩ known :=
  ⟨h.fmt, by simp [h.pos, posOf, h.file], rfl, h.cache, h.known⟩

theorem inv_rotate {cfg : W.Cfg} {P : W.TableDef → Prop} {st : PState} {file : Bytes} {cur : W.Pos} {known : List Nat}
    (h : Inv cfg P st file cur known) (f : Bytes) :
    Inv cfg P { st with pos := ⟨f, ((4 : Nat) : Int)⟩ } f ⟨f, 4⟩ known :=
  ⟨h.fmt, rfl, rfl, h.cache, h.known⟩

theorem inv_format {cfg : W.Cfg} {P : W.TableDef → Prop} {st : PState} {file : Bytes} {cur : W.Pos} {known : List Nat}
    (h : Inv cfg P st file cur known) :
    Inv cfg P { st with format := fmtOf cfg } file cur known :=
  ⟨rfl, h.pos, h.file, h.cache, h.known⟩

theorem inv_known_mono {cfg : W.Cfg} {P : W.TableDef → Prop} {st : PState} {file : Bytes} {cur : W.Pos}
    {known known' : List Nat} (h : Inv cfg P st file cur known) (hk : ∀ id ∈ known', id ∈ known) :
    Inv cfg P st file cur known' :=
  ⟨h.fmt, h.pos, h.file, h.cache, fun id hid => h.known id (hk id hid)⟩

theorem inv_tables {cfg : W.Cfg} {P : W.TableDef → Prop} {st st' : PState} {file : Bytes} {cur : W.Pos}
    {known : List Nat} (h : Inv cfg P st file cur known) (t : W.TableDef) (hP : P t)
    (hf : st'.format = st.format) (hp : st'.pos = st.pos)
    (hsame : findTable st'.tables t.id = some ⟨tmOf t, infoOf t⟩)
    (hother : ∀ j, j ≠ t.id → findTable st'.tables j = findTable st.tables j) :
    Inv cfg P st' file cur (t.id :: known) := by
  refine ⟨?_, by rw [hp, h.pos], h.file, ?_, ?_⟩
  · have := h.fmt; unfold Ready at this ⊢; rw [hf, this]
  · intro id tc hid
    by_cases hj : id = t.id
    · subst hj
      rw [hsame] at hid
      exact ⟨t, hP, rfl, (Option.some.inj hid).symm⟩
    · rw [hother id hj] at hid
      exact h.cache id tc hid
  · intro id hid
    by_cases hj : id = t.id
    · subst hj; rw [hsame]; simp
    · rw [hother id hj]
      rcases List.mem_cons.mp hid with h1 | h1
      · exact absurd h1 hj
      · exact h.known id h1

/-- a cached entry for a history table's id is that table's entry -/
theorem cache_eq {env : Env} {cfg : W.Cfg} {P : W.TableDef → Prop} (ctx : Ctx env P) {st : PState} {file : Bytes}
    {cur : W.Pos} {known : List Nat} (h : Inv cfg P st file cur known) (t : W.TableDef) (hP : P t) (tc : TableCache)
    (hc : findTable st.tables t.id = some tc) : tc = ⟨tmOf t, infoOf t⟩ := by
  obtain ⟨t', hP', hid, rfl⟩ := h.cache _ _ hc
  rw [ctx.uniq t' t hP' hP hid]

/-- the TABLE_MAP event of a history table: afterwards the cache holds exactly its entry, nothing else changes -/
theorem tm_step {env : Env} {cfg : W.Cfg} {P : W.TableDef → Prop} (ctx : Ctx env P) {st : PState} {file : Bytes}
    {cur : W.Pos} {known : List Nat} (h : Inv cfg P st file cur known) (t : W.TableDef) (hP : P t)
    (ht : TableOK cfg t) (off ts : Nat) (optional : Bytes) (hts : ts < 2 ^ 32)
    (hb : endOf cfg off (W.tableMapBody (if cfg.idw4 then 4 else 6) t.id 1 t.db t.name t.cols optional) < 2 ^ 32) :
    ∃ d st', classify env st (bytesAt cfg off 19 ts
          (W.tableMapBody (if cfg.idw4 then 4 else 6) t.id 1 t.db t.name t.cols optional)) = d ∧
      stepD st d = .cont st' ∧ Inv cfg P st' file cur (t.id :: known) ∧ st'.tran = st.tran ∧
      st'.autocommit = st.autocommit ∧ findTable st'.tables t.id = some ⟨tmOf t, infoOf t⟩ := by
  cases hc : findTable st.tables t.id with
  | none =>
    have hcl := cl_tm_new env st cfg h.fmt off ts t ht optional hts hb hc (ctx.mapper t hP)
    have hs := GV.C15.findTable_append_same st.tables t.id ⟨tmOf t, infoOf t⟩ hc
    refine ⟨_, { st with tables := st.tables ++ [(t.id, ⟨tmOf t, infoOf t⟩)] }, hcl, by simp [stepD, hc], ?_, rfl, rfl, hs⟩
    exact inv_tables h t hP rfl rfl hs (fun j hj => GV.C15.findTable_append_other st.tables t.id _ j hj)
  | some old =>
    have ho := cache_eq ctx h t hP old hc
    have hcl := cl_tm_known env st cfg h.fmt off ts t ht optional hts hb old hc (same_of_eq ho)
    have he : ({ old with tableMap := tmOf t } : TableCache) = ⟨tmOf t, infoOf t⟩ := by rw [ho]
    rw [he] at hcl
    have hs := GV.C15.findTable_update_same st.tables t.id ⟨tmOf t, infoOf t⟩ old hc
    refine ⟨_, { st with tables := st.tables.map fun p => if p.1 == t.id then (p.1, ⟨tmOf t, infoOf t⟩) else p }, hcl,
      by simp [stepD], ?_, rfl, rfl, hs⟩
    exact inv_tables h t hP rfl rfl hs (fun j hj => GV.C15.findTable_update_other st.tables t.id _ j hj)

/-! ### one laid-out event at a time -/

/-- every event of the list ends below 4 GiB -/
def Bnd (l : List W.Laid) : Prop := ∀ e ∈ l, e.next < 2 ^ 32

theorem bnd_cons {e : W.Laid} {l : List W.Laid} (h : Bnd (e :: l)) : e.next < 2 ^ 32 ∧ Bnd l :=
  ⟨h e List.mem_cons_self, fun x hx => h x (List.mem_cons_of_mem _ hx)⟩

theorem bnd_none {cfg : W.Cfg} {typ : Nat} {body : Bytes} {ts : Nat} {us : Bool} {es : List W.AEv} {file : Bytes}
    {off : Nat} (h : Bnd (W.layoutAux cfg (⟨typ, body, ts, .none, us⟩ :: es) file off)) :
    endOf cfg off body < 2 ^ 32 ∧ Bnd (W.layoutAux cfg es file (endOf cfg off body)) := by
  rw [layoutAux_none] at h; exact bnd_cons h

theorem bnd_commit {cfg : W.Cfg} {typ : Nat} {body : Bytes} {ts : Nat} {cs : List W.Change} {us : Bool}
    {es : List W.AEv} {file : Bytes} {off : Nat}
    (h : Bnd (W.layoutAux cfg (⟨typ, body, ts, .commit cs, us⟩ :: es) file off)) :
    endOf cfg off body < 2 ^ 32 ∧ Bnd (W.layoutAux cfg es file (endOf cfg off body)) := by
  rw [layoutAux_commit] at h; exact bnd_cons h

theorem lay_cont {env : Env} {cfg : W.Cfg} {st st' : PState} {cur : W.Pos} {typ : Nat} {body : Bytes} {ts : Nat}
    {us : Bool} {es : List W.AEv} {file : Bytes} {off : Nat} (d : Decoded)
    (hc : classify env st (bytesAt cfg off typ ts body) = d) (hs : stepD st d = .cont st')
    (hg : Good env st' cur (W.layoutAux cfg es file (endOf cfg off body))) :
    Good env st cur (W.layoutAux cfg (⟨typ, body, ts, .none, us⟩ :: es) file off) := by
  rw [layoutAux_none]
  exact good_cont env st st' cur _ _ d hc hs (Or.inl rfl) hg

theorem lay_deliver {env : Env} {cfg : W.Cfg} {st acc : PState} {cur : W.Pos} {typ : Nat} {body : Bytes} {ts : Nat}
    {cs : List W.Change} {us : Bool} {es : List W.AEv} {file : Bytes} {off : Nat} (d : Decoded)
    (hc : classify env st (bytesAt cfg off typ ts body) = d)
    (hs : stepD st d = .deliver (toTx env.ext ⟨cur, ⟨file, endOf cfg off body⟩, ts, cs⟩) acc)
    (hg : Good env acc ⟨file, endOf cfg off body⟩ (W.layoutAux cfg es file (endOf cfg off body))) :
    Good env st cur (W.layoutAux cfg (⟨typ, body, ts, .commit cs, us⟩ :: es) file off) := by
  rw [layoutAux_commit]
  exact good_deliver env st acc cur _ _ d cs hc hs rfl hg

/-- a transaction delivered from `st` at the Spec position `cur`, ending at `next` in `file` -/
theorem toTx_eq {cfg : W.Cfg} {P : W.TableDef → Prop} {st : PState} {file : Bytes} {cur : W.Pos} {known : List Nat}
    (h : Inv cfg P st file cur known) (E : Ext) (next ts : Nat) (cs : List W.Change) :
    toTx E ⟨cur, ⟨file, next⟩, ts, cs⟩ = ⟨st.pos, { st.pos with offset := next }, ts, cs.map (seOfChange E)⟩ := by
  simp [toTx, h.pos, posOf, h.file]

/-! ### the TABLE_MAP announcement of a rows change -/

/-- the TABLE_MAP event a rows change is announced with (`u`: whether it starts the unit) -/
def tmAEv (cfg : W.Cfg) (c : W.RowsChange) (u : Bool) : W.AEv :=
  ⟨19, W.tableMapBody (if cfg.idw4 then 4 else 6) c.table.id 1 c.table.db c.table.name c.table.cols c.tmOptional,
   c.ts, .none, u⟩

theorem announce_run {env : Env} {cfg : W.Cfg} {P : W.TableDef → Prop} (ctx : Ctx env P) (c : W.RowsChange) (u : Bool)
    (hP : P c.table) (hok : RowsOK cfg c) {st : PState} {file : Bytes} {cur : W.Pos} {known : List Nat} (off : Nat)
    (hI : Inv cfg P st file cur known) (hann : c.announce = true ∨ c.table.id ∈ known) (rest : List W.AEv)
    (hb : Bnd (W.layoutAux cfg ((if c.announce then [tmAEv cfg c u] else []) ++ rest) file off))
    (k : ∀ st' off', Inv cfg P st' file cur (c.table.id :: known) → st'.tran = st.tran →
      st'.autocommit = st.autocommit → findTable st'.tables c.table.id = some ⟨tmOf c.table, infoOf c.table⟩ →
      Bnd (W.layoutAux cfg rest file off') → Good env st' cur (W.layoutAux cfg rest file off')) :
    Good env st cur (W.layoutAux cfg ((if c.announce then [tmAEv cfg c u] else []) ++ rest) file off) := by
  cases ha : c.announce with
  | true =>
    simp only [ha, if_true, List.cons_append, List.nil_append, tmAEv] at hb ⊢
    obtain ⟨hb1, hb2⟩ := bnd_none hb
    obtain ⟨d, st', hcl, hs, hI', htr, hau, hf⟩ := tm_step ctx hI c.table hP hok.table off c.ts c.tmOptional hok.ts hb1
    exact lay_cont d hcl hs (k st' _ hI' htr hau hf hb2)
  | false =>
    simp only [ha, Bool.false_eq_true, if_false, List.nil_append] at hb ⊢
    have hk : c.table.id ∈ known := by
      rcases hann with h | h
      · rw [ha] at h; cases h
      · exact h
    have hne := hI.known _ hk
    cases hc : findTable st.tables c.table.id with
    | none => exact absurd hc hne
    | some tc =>
      have := cache_eq ctx hI c.table hP tc hc
      subst this
      refine k st off ⟨hI.fmt, hI.pos, hI.file, hI.cache, ?_⟩ rfl rfl hc hb
      intro id hid
      rcases List.mem_cons.mp hid with h1 | h1
      · rw [h1, hc]; simp
      · exact hI.known id h1

/-! ### the changes of an open transaction -/

theorem annOK_mono : ∀ (cs : List W.RowsChange) (k k' : List Nat), (∀ x ∈ k, x ∈ k') → annOK k cs → annOK k' cs
  | [], _, _, _, _ => trivial
  | c :: cs, k, k', hk, h => by
    obtain ⟨h1, h2⟩ := h
    refine ⟨?_, annOK_mono cs _ _ ?_ h2⟩
    · rcases h1 with h1 | h1
      · exact Or.inl h1
      · exact Or.inr (hk _ h1)
    · intro x hx
      rcases List.mem_cons.mp hx with rfl | hx
      · exact List.mem_cons_self
      · exact List.mem_cons_of_mem _ (hk x hx)

theorem changes_run {env : Env} {cfg : W.Cfg} {P : W.TableDef → Prop} (ctx : Ctx env P) :
    ∀ (cs : List W.Change) (rest : List W.AEv) (R : List W.RowsChange) (st : PState) (acc : List StreamEvent)
      (file : Bytes) (off : Nat) (cur : W.Pos) (known : List Nat),
    Inv cfg P st file cur known → st.tran = some acc → st.autocommit = false →
    (∀ c ∈ cs, ChangeOK cfg c) → (∀ c ∈ changeRows cs, P c.table) → annOK known (changeRows cs ++ R) →
    Bnd (W.layoutAux cfg (cs.flatMap (W.changeEvs cfg) ++ rest) file off) →
    (∀ st' off' known', Inv cfg P st' file cur known' → st'.tran = some (acc ++ cs.map (seOfChange env.ext)) →
      st'.autocommit = false → annOK known' R → Bnd (W.layoutAux cfg rest file off') →
      Good env st' cur (W.layoutAux cfg rest file off')) →
    Good env st cur (W.layoutAux cfg (cs.flatMap (W.changeEvs cfg) ++ rest) file off) := by
  intro cs
  induction cs with
  | nil =>
    intro rest R st acc file off cur known hI ht ha _ _ hann hb k
    simp only [List.flatMap_nil, List.nil_append] at hb ⊢
    exact k st off known hI (by simpa using ht) ha (by simpa [changeRows] using hann) hb
  | cons ch cs ih =>
    intro rest R st acc file off cur known hI ht ha hok hP hann hb k
    have hok' : ∀ c ∈ cs, ChangeOK cfg c := fun c hc => hok c (List.mem_cons_of_mem _ hc)
    cases ch with
    | stmt s =>
      obtain ⟨hs, hcat⟩ := hok (.stmt s) List.mem_cons_self
      simp only [List.flatMap_cons, W.changeEvs, W.stmtEv, List.cons_append, List.nil_append] at hb ⊢
      obtain ⟨hb1, hb2⟩ := bnd_none hb
      have hcl := cl_query env st cfg hI.fmt off s.ts s.vars s.db s.sql hs.vars hs.varsLen hs.db hs.ts hb1
      rw [hs.cat, ← hs.charset] at hcl
      refine lay_cont _ hcl (sd_stmt_tx st acc ht ha s.cat _ _ s.ts hcat) ?_
      refine ih rest R _ (acc ++ [seOfStmt s]) file _ cur known (inv_tran' hI _) rfl ha hok'
        (by simpa [changeRows] using hP) (by simpa [changeRows] using hann) hb2 ?_
      intro st' off' known' hI' ht' ha' hann' hb'
      exact k st' off' known' hI' (by simpa [seOfChange] using ht') ha' hann' hb'
    | rows c =>
      obtain ⟨hrc, hne⟩ := hok (.rows c) List.mem_cons_self
      have hPc : P c.table := hP c (by simp [changeRows])
      simp only [changeRows, List.cons_append] at hann
      obtain ⟨hann1, hann2⟩ := hann
      have htm : W.tableMapEv cfg c = tmAEv cfg c false := rfl
      simp only [List.flatMap_cons, W.changeEvs, List.append_assoc, htm] at hb ⊢
      refine announce_run ctx c false hPc hrc off hI hann1 _ hb ?_
      intro st1 off1 hI1 ht1 ha1 hf1 hb1
      simp only [W.rowsEv, List.cons_append, List.nil_append] at hb1 ⊢
      obtain ⟨hb2, hb3⟩ := bnd_none hb1
      have hcl := cl_rows env st1 cfg hI1.fmt off1 c hrc hne hb2 hf1
      refine lay_cont _ hcl (sd_rows_tx st1 acc (ht1.trans ht) (ha1.trans ha) _ _ c.ts) ?_
      refine ih rest R _ (acc ++ [seOfRows env.ext c]) file _ cur (c.table.id :: known) (inv_tran' hI1 _) rfl
        (ha1.trans ha) hok' (fun x hx => hP x (by simp [changeRows, hx])) hann2 hb3 ?_
      intro st' off' known' hI' ht' ha' hann' hb'
      exact k st' off' known' hI' (by simpa [seOfChange] using ht') ha' hann' hb'

/-! ### whole units -/

theorem histRows_cons (u : W.Unit) (us : List W.Unit) : histRows (u :: us) = unitRows u ++ histRows us := by
  simp [histRows]

/-- moving on to file `f`: the artificial ROTATE naming it, then its FORMAT_DESCRIPTION event -/
theorem newfile_run {env : Env} {cfg : W.Cfg} {P : W.TableDef → Prop} {st : PState} {file : Bytes} {cur : W.Pos}
    {known : List Nat} (hI : Inv cfg P st file cur known) (f : Bytes) (seed : Nat)
    (hl : 27 + f.length + (if cfg.crc then 4 else 0) < 2 ^ 32) (l : List W.Laid)
    (hg : ∀ st', Inv cfg P st' f ⟨f, 4⟩ known → st'.tran = st.tran → st'.autocommit = st.autocommit →
      Good env st' ⟨f, 4⟩ l) :
    Good env st cur (⟨file, seed, seed, fakeRotBytes cfg seed 4 f, 0, .rotateTo f, false⟩
      :: ⟨f, 4, (W.fdeEvent cfg 4 none).2, (W.fdeEvent cfg 4 none).1, 0, .fileHead, false⟩ :: l) := by
  have h1 := cl_fakeRot env st cfg hI.fmt seed 4 f (by decide) hl
  refine good_rot env st { st with pos := ⟨f, ((4 : Nat) : Int)⟩ } cur _ _ _ f h1 rfl rfl ?_
  have h2 := C01_classify_fde env { st with pos := ⟨f, ((4 : Nat) : Int)⟩ } cfg 4 none (by decide) (by simp)
  refine good_cont env _ { st with pos := ⟨f, ((4 : Nat) : Int)⟩, format := fmtOf cfg } ⟨f, 4⟩ _ _ _ h2 rfl (Or.inr rfl) ?_
  exact hg _ (inv_format (inv_rotate hI f)) rfl rfl

/-- an event the parser ignores -/
theorem skip_run {env : Env} {cfg : W.Cfg} {P : W.TableDef → Prop} {st : PState} {file : Bytes} {cur : W.Pos}
    {known : List Nat} (hI : Inv cfg P st file cur known) (typ : Nat) (body : Bytes) (u : Bool) (es : List W.AEv)
    (off : Nat) (ht : typ < 256) (hty : typ ∉ handledTypes)
    (hb : Bnd (W.layoutAux cfg (⟨typ, body, 0, .none, u⟩ :: es) file off))
    (k : Bnd (W.layoutAux cfg es file (endOf cfg off body)) → Good env st cur (W.layoutAux cfg es file (endOf cfg off body))) :
    Good env st cur (W.layoutAux cfg (⟨typ, body, 0, .none, u⟩ :: es) file off) := by
  obtain ⟨hb1, hb2⟩ := bnd_none hb
  exact lay_cont _ (cl_skip env st cfg hI.fmt off 0 typ body ht hty (by decide) hb1) rfl (k hb2)

/-- a statement delivered on its own (DDL / statement-format DML outside a transaction) -/
theorem single_stmt_run {env : Env} {cfg : W.Cfg} {P : W.TableDef → Prop} {st : PState} {file : Bytes} {cur : W.Pos}
    {known : List Nat} (hI : Inv cfg P st file cur known) (ht : st.tran = none) (ha : st.autocommit = true)
    (s : W.StmtChange) (hs : StmtOK s) (hcat : isChangeCat s.cat) (u : Bool) (es : List W.AEv) (off : Nat)
    (hb : Bnd (W.layoutAux cfg (⟨2, W.queryBody 1 0 0 s.vars s.db s.sql, s.ts, .commit [.stmt s], u⟩ :: es) file off))
    (k : ∀ st' off', Inv cfg P st' file ⟨file, off'⟩ known → st'.tran = none → st'.autocommit = true →
      Bnd (W.layoutAux cfg es file off') → Good env st' ⟨file, off'⟩ (W.layoutAux cfg es file off')) :
    Good env st cur (W.layoutAux cfg (⟨2, W.queryBody 1 0 0 s.vars s.db s.sql, s.ts, .commit [.stmt s], u⟩ :: es) file off) := by
  obtain ⟨hb1, hb2⟩ := bnd_commit hb
  have hcl := cl_query env st cfg hI.fmt off s.ts s.vars s.db s.sql hs.vars hs.varsLen hs.db hs.ts hb1
  rw [hs.cat, ← hs.charset] at hcl
  refine lay_deliver _ hcl ?_ (k _ _ (inv_commit hI _) rfl rfl hb2)
  rw [sd_stmt_idle st ht ha s.cat _ _ s.ts hcat, toTx_eq hI]
  rfl

theorem units_run {env : Env} {cfg : W.Cfg} {P : W.TableDef → Prop} (ctx : Ctx env P) :
    ∀ (us : List W.Unit) (st : PState) (file : Bytes) (off : Nat) (cur : W.Pos) (known : List Nat),
    Inv cfg P st file cur known → st.tran = none → st.autocommit = true →
    (∀ u ∈ us, UnitOK cfg u) → (∀ c ∈ histRows us, P c.table) → annOK known (histRows us) →
    Bnd (W.layoutAux cfg (us.flatMap (W.unitEvs cfg)) file off) →
    Good env st cur (W.layoutAux cfg (us.flatMap (W.unitEvs cfg)) file off) := by
  intro us
  induction us with
  | nil =>
    intro st file off cur known hI _ _ _ _ _ _
    simp only [List.flatMap_nil, W.layoutAux]
    exact good_nil env st cur hI.pos
  | cons u us ih =>
    intro st file off cur known hI ht ha hok hP hann hb
    have hok' : ∀ u ∈ us, UnitOK cfg u := fun x hx => hok x (List.mem_cons_of_mem _ hx)
    have hu := hok u List.mem_cons_self
    rw [histRows_cons] at hP hann
    simp only [List.flatMap_cons] at hb ⊢
    cases u with
    | tx b cs close ts =>
      obtain ⟨hbeg, hcs, hclose, hts⟩ := hu
      simp only [unitRows] at hP hann
      -- the events after the changes: the closer, then the later units
      have key : ∀ (closeEv : W.AEv),
          (∀ st' off' known', Inv cfg P st' file cur known' → st'.tran = some (cs.map (seOfChange env.ext)) →
            st'.autocommit = false → annOK known' (histRows us) →
            Bnd (W.layoutAux cfg (closeEv :: us.flatMap (W.unitEvs cfg)) file off') →
            Good env st' cur (W.layoutAux cfg (closeEv :: us.flatMap (W.unitEvs cfg)) file off')) →
          Bnd (W.layoutAux cfg (W.markStart ([W.stmtEv ⟨b, [], ts, [], 0, none⟩ .none] ++ cs.flatMap (W.changeEvs cfg) ++ [closeEv])
                ++ us.flatMap (W.unitEvs cfg)) file off) →
          Good env st cur (W.layoutAux cfg (W.markStart ([W.stmtEv ⟨b, [], ts, [], 0, none⟩ .none] ++ cs.flatMap (W.changeEvs cfg) ++ [closeEv])
                ++ us.flatMap (W.unitEvs cfg)) file off) := by
        intro closeEv k hb
        simp only [W.stmtEv, List.cons_append, List.nil_append, W.markStart, List.append_assoc] at hb ⊢
        obtain ⟨hb1, hb2⟩ := bnd_none hb
        have hcl := cl_query env st cfg hI.fmt off ts [] [] b (by simp) (by simp) (by simp) hts hb1
        rw [hbeg] at hcl
        refine lay_cont _ hcl (SL.step_begin _ _ _) ?_
        refine changes_run ctx cs _ (histRows us) _ [] file _ cur known (inv_tran hI _ _) rfl rfl hcs
          (fun c hc => hP c (List.mem_append_left _ hc)) hann hb2 ?_
        intro st' off' known' hI' ht' ha' hann' hb'
        exact k st' off' known' hI' (by simpa using ht') ha' hann' hb'
      cases close with
      | xid n =>
        simp only [W.unitEvs] at hb ⊢
        refine key _ ?_ hb
        intro st' off' known' hI' ht' ha' hann' hb'
        obtain ⟨hb1, hb2⟩ := bnd_commit hb'
        have hcl := cl_xid env st' cfg hI'.fmt off' ts n hts hb1
        refine lay_deliver _ hcl ?_ (ih _ file _ _ known' (inv_commit hI' _) rfl rfl hok'
          (fun c hc => hP c (List.mem_append_right _ hc)) hann' hb2)
        have := SL.step_closer (st := st') ⟨ht', ha'⟩ .xid (endOf cfg off' (W.xidBody n)) ts
        rw [toTx_eq hI']
        exact this
      | commit sql =>
        simp only [W.unitEvs, W.stmtEv] at hb ⊢
        refine key _ ?_ hb
        intro st' off' known' hI' ht' ha' hann' hb'
        obtain ⟨hb1, hb2⟩ := bnd_commit hb'
        have hcl := cl_query env st' cfg hI'.fmt off' ts [] [] sql (by simp) (by simp) (by simp) hts hb1
        simp only [CloserOK] at hclose
        rw [hclose] at hcl
        refine lay_deliver _ hcl ?_ (ih _ file _ _ known' (inv_commit hI' _) rfl rfl hok'
          (fun c hc => hP c (List.mem_append_right _ hc)) hann' hb2)
        have := SL.step_closer (st := st') ⟨ht', ha'⟩ (.commit ⟨[], Props.C16.charsetOf [], sql⟩)
          (endOf cfg off' (W.queryBody 1 0 0 [] [] sql)) ts
        rw [toTx_eq hI']
        exact this
      | rollback sql =>
        simp only [W.unitEvs, W.stmtEv] at hb ⊢
        refine key _ ?_ hb
        intro st' off' known' hI' ht' ha' hann' hb'
        obtain ⟨hb1, hb2⟩ := bnd_commit hb'
        have hcl := cl_query env st' cfg hI'.fmt off' ts [] [] sql (by simp) (by simp) (by simp) hts hb1
        simp only [CloserOK] at hclose
        rw [hclose] at hcl
        refine lay_deliver _ hcl ?_ (ih _ file _ _ known' (inv_commit hI' _) rfl rfl hok'
          (fun c hc => hP c (List.mem_append_right _ hc)) hann' hb2)
        have := SL.step_closer (st := st') ⟨ht', ha'⟩ (.rollback ⟨[], Props.C16.charsetOf [], sql⟩)
          (endOf cfg off' (W.queryBody 1 0 0 [] [] sql)) ts
        rw [toTx_eq hI']
        exact this
    | ddl s =>
      obtain ⟨hs, hcat⟩ := hu
      simp only [unitRows, List.nil_append] at hP hann
      simp only [W.unitEvs, W.stmtEv, W.markStart, List.cons_append, List.nil_append] at hb ⊢
      refine single_stmt_run hI ht ha s hs hcat _ _ off hb ?_
      intro st' off' hI' ht' ha' hb'
      exact ih st' file off' _ known hI' ht' ha' hok' hP hann hb'
    | stmtDML s =>
      obtain ⟨hs, hcat⟩ := hu
      simp only [unitRows, List.nil_append] at hP hann
      simp only [W.unitEvs, W.stmtEv, W.markStart, List.cons_append, List.nil_append] at hb ⊢
      refine single_stmt_run hI ht ha s hs hcat _ _ off hb ?_
      intro st' off' hI' ht' ha' hb'
      exact ih st' file off' _ known hI' ht' ha' hok' hP hann hb'
    | autoRows c =>
      obtain ⟨hrc, hne⟩ := hu
      simp only [unitRows, List.cons_append, List.nil_append] at hP hann
      obtain ⟨hann1, hann2⟩ := hann
      have hPc : P c.table := hP c List.mem_cons_self
      have hev : W.unitEvs cfg (.autoRows c) = (if c.announce then [tmAEv cfg c true] else []) ++
          [⟨W.rowsEventType c.kind cfg.rowsV2,
            W.rowsBody c.kind cfg.rowsV2 (if cfg.idw4 then 4 else 6) c.table.id c.flags c.extra c.table.cols
              c.presentBefore c.presentAfter c.rows, c.ts, .commit [.rows c], !c.announce⟩] := by
        simp only [W.unitEvs, W.rowsEv, W.tableMapEv, tmAEv]
        cases c.announce <;> rfl
      rw [hev, List.append_assoc] at hb ⊢
      refine announce_run ctx c true hPc hrc off hI hann1 _ hb ?_
      intro st1 off1 hI1 ht1 ha1 hf1 hb1
      simp only [List.cons_append, List.nil_append] at hb1 ⊢
      obtain ⟨hb2, hb3⟩ := bnd_commit hb1
      have hcl := cl_rows env st1 cfg hI1.fmt off1 c hrc hne hb2 hf1
      refine lay_deliver _ hcl ?_ (ih _ file _ _ _ (inv_commit hI1 _) rfl rfl hok'
        (fun x hx => hP x (List.mem_cons_of_mem _ hx)) hann2 hb3)
      rw [sd_rows_idle st1 (ht1.trans ht) (ha1.trans ha), toTx_eq hI1]
      rfl
    | rotate f =>
      simp only [unitRows, List.nil_append] at hP hann
      simp only [W.unitEvs, W.markStart, List.cons_append, List.nil_append] at hb ⊢
      rw [layoutAux_rotate] at hb ⊢
      obtain ⟨hb1, hb2⟩ := bnd_cons hb
      obtain ⟨_, hb3⟩ := bnd_cons hb2
      obtain ⟨_, hb4⟩ := bnd_cons hb3
      have hb1' : endOf cfg off (W.rotateBody 4 f) < 2 ^ 32 := hb1
      have hcl := cl_rotate env st cfg hI.fmt off 0 4 f (by decide) (by decide) hb1'
      refine good_rot env st { st with pos := ⟨f, ((4 : Nat) : Int)⟩ } cur _ _ _ f hcl rfl rfl ?_
      have hl : 27 + f.length + (if cfg.crc then 4 else 0) < 2 ^ 32 := by
        have hlen : (W.rotateBody 4 f).length = 8 + f.length := by simp [W.rotateBody]
        have hcn : crcN cfg off = if cfg.crc then 4 else 0 := by
          unfold crcN W.crcOf Props.C16.crcLen
          cases cfg.crc <;> simp
        unfold endOf at hb1'
        rw [hlen, hcn] at hb1'
        omega
      refine newfile_run (inv_rotate hI f) f _ hl _ ?_
      intro st' hI' ht' ha'
      exact ih st' f _ _ known hI' (ht'.trans ht) (ha'.trans ha) hok' hP hann hb4
    | restart f =>
      simp only [unitRows, List.nil_append] at hP hann
      simp only [W.unitEvs, W.markStart, List.cons_append, List.nil_append] at hb ⊢
      rw [layoutAux_restart] at hb ⊢
      obtain ⟨hb1, hb2⟩ := bnd_cons hb
      obtain ⟨_, hb3⟩ := bnd_cons hb2
      obtain ⟨_, hb4⟩ := bnd_cons hb3
      have hb1' : endOf cfg off [] < 2 ^ 32 := hb1
      have hcl := cl_skip env st cfg hI.fmt off 0 3 [] (by decide) (by decide) (by decide) hb1'
      refine good_cont env st st cur _ _ _ hcl rfl (Or.inl rfl) ?_
      have hl : 27 + f.length + (if cfg.crc then 4 else 0) < 2 ^ 32 := by
        have : f.length < 2 ^ 31 := hu
        simp only [Nat.reducePow] at this ⊢
        split <;> omega
      refine newfile_run hI f _ hl _ ?_
      intro st' hI' ht' ha'
      exact ih st' f _ _ known hI' (ht'.trans ht) (ha'.trans ha) hok' hP hann hb4
    | gtid sid gno =>
      simp only [unitRows, List.nil_append] at hP hann
      simp only [W.unitEvs, W.markStart, List.cons_append, List.nil_append] at hb ⊢
      exact skip_run hI _ _ _ _ off (by decide) (by decide) hb
        (fun hb' => ih st file _ cur known hI ht ha hok' hP hann hb')
    | anonGtid =>
      simp only [unitRows, List.nil_append] at hP hann
      simp only [W.unitEvs, W.markStart, List.cons_append, List.nil_append] at hb ⊢
      exact skip_run hI _ _ _ _ off (by decide) (by decide) hb
        (fun hb' => ih st file _ cur known hI ht ha hok' hP hann hb')
    | prevGtids blk =>
      simp only [unitRows, List.nil_append] at hP hann
      simp only [W.unitEvs, W.markStart, List.cons_append, List.nil_append] at hb ⊢
      exact skip_run hI _ _ _ _ off (by decide) (by decide) hb
        (fun hb' => ih st file _ cur known hI ht ha hok' hP hann hb')
    | heartbeat =>
      simp only [unitRows, List.nil_append] at hP hann
      simp only [W.unitEvs, W.markStart, List.cons_append, List.nil_append] at hb ⊢
      exact skip_run hI _ _ _ _ off (by decide) (by decide) hb
        (fun hb' => ih st file _ cur known hI ht ha hok' hP hann hb')
    | unknownEvent typ body =>
      obtain ⟨hlt, hty⟩ := hu
      simp only [unitRows, List.nil_append] at hP hann
      simp only [W.unitEvs, W.markStart, List.cons_append, List.nil_append] at hb ⊢
      exact skip_run hI _ _ _ _ off hlt hty hb
        (fun hb' => ih st file _ cur known hI ht ha hok' hP hann hb')
    | unknownStmt s =>
      obtain ⟨hs, hcat⟩ := hu
      simp only [unitRows, List.nil_append] at hP hann
      simp only [W.unitEvs, W.stmtEv, W.markStart, List.cons_append, List.nil_append] at hb ⊢
      obtain ⟨hb1, hb2⟩ := bnd_none hb
      have hcl := cl_query env st cfg hI.fmt off s.ts s.vars s.db s.sql hs.vars hs.varsLen hs.db hs.ts hb1
      rw [hs.cat] at hcl
      exact lay_cont _ hcl (sd_unknown st _ _ _ _ hcat) (ih st file _ cur known hI ht ha hok' hP hann hb2)

/-! ### from the head of the log -/

theorem layout_eq (cfg : W.Cfg) (h : W.History) :
    W.layout cfg h = ⟨W.firstFile, 4, (W.fdeEvent cfg 4 none).2, (W.fdeEvent cfg 4 none).1, 0, .fileHead, false⟩
      :: W.layoutAux cfg (h.flatMap (W.unitEvs cfg)) W.firstFile (W.fdeEvent cfg 4 none).2 := rfl

theorem fromPos_head (cfg : W.Cfg) (h : W.History) :
    W.fromPos (W.layout cfg h) ⟨W.firstFile, 4⟩ = W.layout cfg h := by
  rw [layout_eq]
  simp [W.fromPos, List.dropWhile]

theorem serve_head (cfg : W.Cfg) (h : W.History) :
    W.serve cfg h ⟨W.firstFile, 4⟩ = fakeRotBytes cfg 0 4 W.firstFile :: (W.layout cfg h).map (·.bytes) := by
  unfold W.serve
  simp only [fromPos_head]
  rw [layout_eq]
  rfl

theorem fidelity_head (cfg : W.Cfg) (env : Env) (h : W.History) (hwf : WFHist cfg h) (hm : MapperAgrees env h) :
    parseEvents env (fun _ => true) (PState.init ⟨W.firstFile, 4⟩)
        ((W.serve cfg h ⟨W.firstFile, 4⟩).map Input.event ++ [Input.closed])
      = ⟨(W.expected cfg h ⟨W.firstFile, 4⟩).map (toTx env.ext), (W.expected cfg h ⟨W.firstFile, 4⟩).map (toTx env.ext),
         posOf (W.endPos cfg h ⟨W.firstFile, 4⟩), false, false⟩ := by
  let P : W.TableDef → Prop := fun t => ∃ c ∈ histRows h, c.table = t
  have ctx : Ctx env P := by
    refine ⟨?_, ?_⟩
    · rintro t1 t2 ⟨c1, h1, rfl⟩ ⟨c2, h2, rfl⟩ hid
      exact hwf.tables c1 h1 c2 h2 hid
    · rintro t ⟨c, hc, rfl⟩
      exact hm c hc
  let st1 : PState := { PState.init ⟨W.firstFile, 4⟩ with format := fmtOf cfg }
  have hI : Inv cfg P st1 W.firstFile ⟨W.firstFile, 4⟩ [] := by
    refine ⟨rfl, rfl, rfl, ?_, ?_⟩
    · intro id tc hf; simp [st1, PState.init, findTable] at hf
    · intro id hid; cases hid
  have hoff := hwf.offsets
  rw [layout_eq] at hoff
  have hb : Bnd (W.layoutAux cfg (h.flatMap (W.unitEvs cfg)) W.firstFile (W.fdeEvent cfg 4 none).2) :=
    (bnd_cons hoff).2
  have hg := units_run ctx h st1 W.firstFile _ ⟨W.firstFile, 4⟩ [] hI rfl rfl hwf.units
    (fun c hc => ⟨c, hc, rfl⟩) hwf.announced hb
  have hfde := C01_classify_fde env (PState.init ⟨W.firstFile, 4⟩) cfg 4 none (by decide) (by simp)
  have hg2 : Good env (PState.init ⟨W.firstFile, 4⟩) ⟨W.firstFile, 4⟩ (W.layout cfg h) := by
    rw [layout_eq]
    exact good_cont env _ st1 _ _ _ _ hfde rfl (Or.inr rfl) hg
  have hfake := cl_fakeRot_first env (PState.init ⟨W.firstFile, 4⟩) cfg rfl 0 4 W.firstFile
    (by have : W.firstFile.length = 10 := by decide
        rw [this]; simp only [Nat.reducePow]; split <;> omega)
  unfold Good at hg2
  rw [serve_head, W.expected, W.endPos, fromPos_head]
  simp only [List.map_cons, List.cons_append, parseEvents, stepEvent, hfake, stepD, List.map_map]
  exact hg2

end C01c
end GV
