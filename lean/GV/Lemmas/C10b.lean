import GV.Lemmas.C13b
/-
  Helper lemmas for GV/Props/C10b.lean: which values a well-formed cell (`W.CellOK`) of a given column type can hold
  (inversion of `W.CellOK` per type code), and the two readings of the same integer bytes.
-/
namespace GV
namespace C10b
open Bytes M GV.Props.C01 GV.Props.C01b GV.C01c GV.C13b

/-- the range of a w-byte two's-complement integer -/
def InRange (w : Nat) (z : Int) : Prop := -(2 ^ (8 * w - 1) : Int) ≤ z ∧ z < (2 ^ (8 * w - 1) : Int)

theorem toSigned_ofInt (w typ : Nat) (hw : (w, typ) ∈ W.intTypes) (z : Int) (hz : InRange w z) :
    ofInt (8 * w) z < 2 ^ (8 * w) ∧ toSigned (8 * w) (ofInt (8 * w) z) = z := by
  simp only [W.intTypes, List.mem_cons, Prod.mk.injEq, List.mem_nil_iff, or_false] at hw
  unfold InRange at hz
  rcases hw with ⟨rfl, rfl⟩ | ⟨rfl, rfl⟩ | ⟨rfl, rfl⟩ | ⟨rfl, rfl⟩ | ⟨rfl, rfl⟩ <;>
    (simp only [Nat.reduceMul, Nat.reduceSub, Int.reducePow, Int.reduceNeg] at hz
     unfold toSigned ofInt
     simp only [Nat.reduceMul, Nat.reducePow, Nat.reduceSub]
     omega)

/-- an integer column (TINY 1, SHORT 2, INT24 9, LONG 3, LONGLONG 8) holds `w` little-endian bytes `raw`; the Spec value
    is the UNSIGNED reading of these bytes exactly when the mapper flag `u` is set, the two's-complement reading
    otherwise — and the canonical text is the decimal text of that reading -/
theorem int_raw (w typ md : Nat) (u : Bool) (v : W.CellVal) (hw : (w, typ) ∈ W.intTypes) (h : W.CellOK typ md u v)
    (lc f32 f64 : Nat → Bytes) :
    ∃ raw, raw < 2 ^ (8 * w) ∧ W.cell typ md v = Bytes.ofLE w raw ∧
      (u = true → v = .uint w raw) ∧
      (u = false → v = .int w (toSigned (8 * w) raw) ∧ InRange w (toSigned (8 * w) raw)) ∧
      W.text md lc f32 f64 v = (if u then natDec raw else intDec (toSigned (8 * w) raw)) := by
  have hfun : ∀ w', (w', typ) ∈ W.intTypes → w' = w := by
    intro w' h'
    simp only [W.intTypes, List.mem_cons, Prod.mk.injEq, List.mem_nil_iff, or_false] at hw h'
    omega
  cases v with
  | int w' z =>
    obtain ⟨h1, rfl, h3⟩ := h
    obtain rfl := hfun w' h1
    obtain ⟨a, b⟩ := toSigned_ofInt w' typ hw z h3
    refine ⟨ofInt (8 * w') z, a, rfl, by simp, fun _ => ?_, ?_⟩
    · rw [b]; exact ⟨rfl, h3⟩
    · simp [W.text, b]
  | uint w' n =>
    obtain ⟨h1, rfl, h3⟩ := h
    obtain rfl := hfun w' h1
    exact ⟨n, h3, rfl, fun _ => rfl, by simp, by simp [W.text]⟩
  | _ =>
    simp only [W.intTypes, List.mem_cons, Prod.mk.injEq, List.mem_nil_iff, or_false] at hw
    simp only [W.CellOK] at h
    all_goals omega

/-- when the top bit is set the two readings have different texts: the mapper's flag is observable -/
theorem readings_differ (bits raw : Nat) (hr : raw < 2 ^ bits) (htop : 2 ^ (bits - 1) ≤ raw) :
    natDec raw ≠ intDec (toSigned bits raw) := by
  have hneg : toSigned bits raw < 0 := by
    unfold toSigned
    rw [Nat.mod_eq_of_lt hr, if_neg (by omega)]
    omega
  intro he
  have hall := natDec_all_digits raw
  rw [he, intDec, if_pos hneg] at hall
  have := hall 45 List.mem_cons_self
  revert this
  decide

theorem inv_f32 (md : Nat) (u : Bool) (v : W.CellVal) (h : W.CellOK 4 md u v) : ∃ b, v = .f32 b ∧ b < 2 ^ 32 := by
  cases v <;> simp [W.CellOK, W.intTypes] at h
  case f32 b => exact ⟨b, rfl, h⟩

theorem inv_f64 (md : Nat) (u : Bool) (v : W.CellVal) (h : W.CellOK 5 md u v) : ∃ b, v = .f64 b ∧ b < 2 ^ 64 := by
  cases v <;> simp [W.CellOK, W.intTypes] at h
  case f64 b => exact ⟨b, rfl, h⟩

theorem inv_year (md : Nat) (u : Bool) (v : W.CellVal) (h : W.CellOK 13 md u v) : ∃ b, v = .year b ∧ b < 256 := by
  cases v <;> simp [W.CellOK, W.intTypes] at h
  case year b => exact ⟨b, rfl, h⟩

theorem inv_bit (md : Nat) (u : Bool) (v : W.CellVal) (h : W.CellOK 16 md u v) :
    ∃ bs nbits, v = .bit bs ∧ 1 ≤ nbits ∧ nbits ≤ 64 ∧ md = nbits / 8 * 256 + nbits % 8 ∧ bs.length = (nbits + 7) / 8 := by
  cases v <;> simp [W.CellOK, W.intTypes] at h
  case bit bs =>
    obtain ⟨nbits, h1, h2, h3, h4⟩ := h
    exact ⟨bs, nbits, rfl, h1, h2, h3, h4⟩

theorem inv_setraw (md : Nat) (u : Bool) (v : W.CellVal) (h : W.CellOK 248 md u v) :
    ∃ bs, v = .bit bs ∧ md < 256 ∧ bs.length = md := by
  cases v <;> simp [W.CellOK, W.intTypes] at h
  case bit bs => exact ⟨bs, rfl, h.1, h.2⟩

theorem inv_enum (typ md : Nat) (u : Bool) (v : W.CellVal) (ht : typ = 247 ∨ (typ = 254 ∧ md / 256 = 247))
    (h : W.CellOK typ md u v) :
    ∃ w n, v = .enum w n ∧ (w = 1 ∨ w = 2) ∧ n < 256 ^ w ∧ md % 256 = w := by
  cases v with
  | enum w n =>
    obtain ⟨h1, h2, h3⟩ := h
    exact ⟨w, n, rfl, h2, h3, by omega⟩
  | str b =>
    simp only [W.CellOK] at h
    rcases h with ⟨h1, _⟩ | ⟨h1, m, hm, rfl, _⟩ | ⟨h1, _⟩
    · omega
    · have := (C13.charMd_facts m (by omega)).2.1
      exact absurd (by rcases ht with h | h; omega; exact h.2) this
    · omega
  | int _ _ | uint _ _ => simp only [W.CellOK, W.intTypes, List.mem_cons, Prod.mk.injEq, List.mem_nil_iff, or_false] at h; omega
  | _ => simp only [W.CellOK] at h; all_goals omega

theorem inv_set (md : Nat) (u : Bool) (v : W.CellVal) (hm : md / 256 = 248) (h : W.CellOK 254 md u v) :
    ∃ w n, v = .set w n ∧ 1 ≤ w ∧ w ≤ 8 ∧ n < 256 ^ w ∧ md % 256 = w := by
  cases v with
  | set w n =>
    obtain ⟨_, h1, h2, h3, h4⟩ := h
    exact ⟨w, n, rfl, h2, h3, h4, by omega⟩
  | str b =>
    simp only [W.CellOK] at h
    rcases h with ⟨h1, _⟩ | ⟨h1, m, hm', rfl, _⟩ | ⟨h1, _⟩
    · omega
    · exact absurd hm (C13.charMd_facts m (by omega)).2.2.1
    · omega
  | int _ _ | uint _ _ => simp only [W.CellOK, W.intTypes, List.mem_cons, Prod.mk.injEq, List.mem_nil_iff, or_false] at h; omega
  | _ => simp only [W.CellOK] at h; all_goals omega

/-! ### a concrete history for the non-vacuity examples: YEAR, BIT(10), ENUM (both encodings), SET (packed, raw), FLOAT,
    DOUBLE, TINYINT, BIGINT UNSIGNED -/

def qT : W.TableDef :=
  { id := 11, db := [100], name := [113],
    cols := [⟨13, 0, true⟩, ⟨16, 1 * 256 + 2, true⟩, ⟨247, 1, true⟩, ⟨254, 247 * 256 + 2, true⟩,
             ⟨254, 248 * 256 + 1, true⟩, ⟨248, 2, true⟩, ⟨4, 4, true⟩, ⟨5, 8, true⟩, ⟨1, 0, true⟩, ⟨8, 0, true⟩],
    names := [[97], [98], [99], [100], [101], [102], [103], [104], [105], [106]],
    unsigned := [false, false, false, false, false, false, false, false, false, true] }

def qC : W.RowsChange :=
  { kind := .write, table := qT, ts := 77, flags := 1, extra := [],
    presentBefore := [true, true, true, true, true, true, true, true, true, true],
    presentAfter := [true, true, true, true, true, true, true, true, true, true],
    rows := [([], [some (.year 124), some (.bit [3, 255]), some (.enum 1 3), some (.enum 2 300), some (.set 1 5),
                   some (.bit [1, 2]), some (.f32 1065353216), some (.f64 4607182418800017408),
                   some (.int 1 (-128)), some (.uint 8 18446744073709551615)])],
    announce := true, tmOptional := [] }

def qHist : W.History := [.autoRows qC]
def qEnv : Env := ⟨⟨fun b => natDec b, fun b => natDec (b + 1), fun _ => [72], fun _ => 0⟩, fun _ _ => some (infoOf qT)⟩


theorem qTOK : TableOK {} qT :=
  ⟨by decide, by
    intro c hc
    simp [qT] at hc
    rcases hc with rfl | rfl | rfl | rfl | rfl | rfl | rfl | rfl | rfl | rfl <;> (unfold Props.C15.ColOK; decide),
   by decide, rfl, rfl, by decide, by decide, by decide⟩

set_option exponentiation.threshold 512 in
theorem qCOK : RowsOK {} qC := by
  refine ⟨qTOK, rfl, rfl, by decide, by decide, by decide, ?_, ?_⟩
  · intro r hr
    simp only [qC, List.mem_cons, List.not_mem_nil, or_false] at hr
    subst hr
    refine ⟨fun h => absurd rfl h, fun _ => ⟨rfl, ?_⟩⟩
    intro p hp
    simp [qC, qT, colsU, W.selectPresent] at hp
    rcases hp with rfl | rfl | rfl | rfl | rfl | rfl | rfl | rfl | rfl | rfl
    · exact ⟨rfl, by decide⟩
    · exact Or.inl ⟨rfl, 10, by decide, by decide, by decide, by decide⟩
    · exact ⟨Or.inl ⟨rfl, rfl⟩, Or.inl rfl, by decide⟩
    · exact ⟨Or.inr ⟨rfl, rfl⟩, Or.inr rfl, by decide⟩
    · exact ⟨rfl, rfl, by decide, by decide, by decide⟩
    · exact Or.inr ⟨rfl, by decide, by decide⟩
    · exact ⟨rfl, by decide⟩
    · exact ⟨rfl, by decide⟩
    · exact ⟨by decide, rfl, by decide⟩
    · exact ⟨by decide, rfl, by decide⟩
  · decide

theorem qWF : WFHist {} qHist := by
  refine ⟨?_, ?_, ?_, ?_⟩
  · intro u hu
    simp only [qHist, List.mem_cons, List.not_mem_nil, or_false] at hu
    subst hu
    exact ⟨qCOK, by decide⟩
  · decide
  · exact ⟨Or.inl rfl, trivial⟩
  · decide

theorem qMapper : MapperAgrees qEnv qHist := by
  intro c hc
  simp [qHist, histRows, unitRows] at hc
  subst hc
  rfl

theorem qSite (j : Nat) (hj : j < 10) : Site {} qHist 0 0 qC true 0 j :=
  ⟨site_tx_of_bind (by decide), by decide, by decide, hj⟩

end C10b
end GV
