import GV.Model.Cell
import GV.Spec.Cell
import GV.Lemmas.Dec
/- helper lemmas for GV/Props/C10.lean -/
namespace GV
open Bytes

/-! ### indexed reads of a writer-produced little-endian field -/

theorem get_head_cons (x : UInt8) (c : Bytes) : Bytes.get (x :: c) 0 = .ok x := by
  simp [Bytes.get]

theorem get_head_ofLE (w n : Nat) (c : Bytes) :
    Bytes.get (ofLE (w + 1) n ++ c) 0 = .ok (UInt8.ofNat (n % 256)) := by
  simp [ofLE, Bytes.get]

theorem leIdx_mid (a c : Bytes) (w n : Nat) :
    M.leIdx (a ++ (ofLE w n ++ c)) a.length w = .ok (n % 256 ^ w) := by
  induction w generalizing a n with
  | zero => simp [M.leIdx, Nat.mod_one]
  | succ w ih =>
    simp only [M.leIdx, ofLE, List.cons_append]
    rw [get_mid]
    have h : a ++ UInt8.ofNat (n % 256) :: (ofLE w (n / 256) ++ c)
        = (a ++ [UInt8.ofNat (n % 256)]) ++ (ofLE w (n / 256) ++ c) := by simp
    have hl : a.length + 1 = (a ++ [UInt8.ofNat (n % 256)]).length := by simp
    rw [h, hl, ih]
    simp only [Res.ok_bind, Res.pure_eq, toNat_ofNat_mod]
    rw [Nat.pow_succ, Nat.mul_comm (256 ^ w) 256, Nat.mod_mul]

theorem leIdx_head (c : Bytes) (w n : Nat) : M.leIdx (ofLE w n ++ c) 0 w = .ok (n % 256 ^ w) := by
  simpa using leIdx_mid [] c w n

/-- byte 2 of a little-endian field of at least three bytes -/
theorem get2_ofLE (w n : Nat) (c : Bytes) :
    Bytes.get (ofLE (w + 3) n ++ c) 2 = .ok (UInt8.ofNat (n / 256 / 256 % 256)) := by
  simp [ofLE, Bytes.get]

/-- the SET mask loop over a writer-produced field (shifts stay below 64 bits) -/
theorem setMask_mid (a c : Bytes) (l n i : Nat) (hi : a.length = i) (h8 : i + l ≤ 8) :
    M.cellBytes.setMask (a ++ (ofLE l n ++ c)) 0 l i = .ok (n % 256 ^ l * 256 ^ i) := by
  induction l generalizing a n i with
  | zero => simp [M.cellBytes.setMask, Nat.mod_one]
  | succ l ih =>
    simp only [M.cellBytes.setMask, ofLE, List.cons_append, Nat.zero_add]
    subst hi
    rw [get_mid]
    have h : a ++ UInt8.ofNat (n % 256) :: (ofLE l (n / 256) ++ c)
        = (a ++ [UInt8.ofNat (n % 256)]) ++ (ofLE l (n / 256) ++ c) := by simp
    rw [h, ih (a ++ [UInt8.ofNat (n % 256)]) (n / 256) (a.length + 1) (by simp) (by omega)]
    have h8' : a.length < 8 := by omega
    simp only [Res.ok_bind, Res.pure_eq, toNat_ofNat_mod, h8', if_true]
    congr 1
    rw [Nat.pow_succ 256 l, Nat.mul_comm (256 ^ l) 256, Nat.mod_mul, Nat.pow_succ, Nat.add_mul]
    congr 1
    simp only [Nat.mul_assoc, Nat.mul_comm, Nat.mul_left_comm]

theorem setMask_head (c : Bytes) (l n : Nat) (h8 : l ≤ 8) :
    M.cellBytes.setMask (ofLE l n ++ c) 0 l 0 = .ok (n % 256 ^ l) := by
  simpa using setMask_mid [] c l n 0 rfl (by omega)

/-! ### decimal text -/

theorem natDec_length_four (n : Nat) (h1 : 1000 ≤ n) (h2 : n < 10000) : (natDec n).length = 4 := by
  rw [natDec_ge n (by omega), natDec_ge (n / 10) (by omega), natDec_ge (n / 10 / 10) (by omega),
    natDec_lt (n / 10 / 10 / 10) (by omega)]
  rfl

theorem intDec_nonneg (n : Nat) : intDec (n : Int) = natDec n := by
  unfold intDec
  have : ¬ ((n : Int) < 0) := by omega
  simp [this]

/-! ### two's complement round trips (writer wraps with `ofInt`, decoder reads with `iNN`) -/

theorem i8_ofInt (v : Int) (h : -128 ≤ v ∧ v < 128) : i8 (ofInt 8 v % 256) = v := by
  unfold i8 toSigned ofInt; simp only [Nat.reducePow, Nat.reduceSub]; omega
theorem i16_ofInt (v : Int) (h : -32768 ≤ v ∧ v < 32768) : i16 (ofInt 16 v % 65536) = v := by
  unfold i16 toSigned ofInt; simp only [Nat.reducePow, Nat.reduceSub]; omega
theorem i32_ofInt (v : Int) (h : -2147483648 ≤ v ∧ v < 2147483648) : i32 (ofInt 32 v % 4294967296) = v := by
  unfold i32 toSigned ofInt; simp only [Nat.reducePow, Nat.reduceSub]; omega
theorem i64_ofInt (v : Int) (h : -9223372036854775808 ≤ v ∧ v < 9223372036854775808) :
    i64 (ofInt 64 v % 18446744073709551616) = v := by
  unfold i64 toSigned ofInt; simp only [Nat.reducePow, Nat.reduceSub]; omega

/-- INT24 sign extension as the Go code does it (`| 0xff000000` when the top byte has bit 7) -/
theorem i24_neg (v : Int) (h : -8388608 ≤ v ∧ v < 8388608) (hb : ofInt 24 v / 256 / 256 % 256 ≥ 128) :
    i32 (u32 (ofInt 24 v % 16777216 + 255 * 2 ^ 24)) = v := by
  revert hb
  unfold i32 u32 toSigned ofInt; simp only [Nat.reducePow, Nat.reduceSub]; omega

theorem i24_pos (v : Int) (h : -8388608 ≤ v ∧ v < 8388608) (hb : ¬ ofInt 24 v / 256 / 256 % 256 ≥ 128) :
    ((ofInt 24 v % 16777216 : Nat) : Int) = v := by
  revert hb
  unfold ofInt; simp only [Nat.reducePow]; omega

end GV
