import GV.Model.Proto
/- helper lemmas (the inductive invariant) for GV/Props/C05.lean and C06.lean -/
namespace GV.Proto

/-- the item sitting in the error channel, if any -/
def ErrCh.item : ErrCh → Option Reason
  | .one r | .closedOne r => some r
  | _ => none

def ErrCh.closed : ErrCh → Bool
  | .closedOne _ | .closedEmpty => true
  | _ => false

/-- the reader has not yet sent its exit reason -/
def Reader.early : Reader → Bool
  | .reading | .holding | .pub1 _ => true
  | _ => false

/-- how far the Stream call has progressed: 0 = inside parseEvents, 1..3 = epilogue, 4 = returned -/
def Parser.stage : Parser → Nat
  | .waiting | .inHandler => 0
  | .ret0 _ => 1
  | .ret1 _ => 2
  | .ret2 _ => 3
  | .returned _ => 4

/-- parseEvents returned a nil error -/
def Parser.nilRet : Parser → Bool
  | .ret0 false | .ret1 false | .ret2 false | .returned false => true
  | _ => false

/-- parseEvents returned a non-nil error and stopReader() already ran -/
def Parser.errLate : Parser → Bool
  | .ret2 true | .returned true => true
  | _ => false

/-- The inductive invariant of the protocol. -/
def Inv (s : State) : Prop :=
  -- reader / channels
  (s.reader.early = true → s.errCh = .empty ∧ s.published = none) ∧
  (s.evClosed = true → s.reader = .done) ∧
  (s.reader = .done → s.evClosed = true) ∧
  (s.reader = .pub2 → s.errCh.closed = false) ∧
  (s.reader = .pub3 ∨ s.reader = .done → s.errCh.closed = true) ∧
  (s.errCh.item = none ∨ s.errCh.item = s.published) ∧
  (s.reader.early = false → s.published ≠ none) ∧
  (s.errCh = .closedEmpty ∨ (s.errCh = .empty ∧ s.reader.early = false) → s.firstError ≠ .notCalled) ∧
  -- parser / epilogue
  (s.firstError ≠ .notCalled → s.parser.stage = 4) ∧
  (s.connClosed = true → s.parser.stage = 4) ∧
  (s.parser.stage = 4 → s.connClosed = true) ∧
  (s.readerCtx = true → s.cancelled = true ∨ 3 ≤ s.parser.stage) ∧
  (s.cancelled = true ∨ 3 ≤ s.parser.stage → s.readerCtx = true) ∧
  (s.parser.stage ≤ 1 → s.latched = false) ∧
  (2 ≤ s.parser.stage → s.latched = true ∨ s.cancelled = true) ∧
  (s.endedByCtx = true → s.cancelled = true ∧ s.parser.nilRet = true ∧ s.latched = false) ∧
  (s.parser.nilRet = true ∧ s.endedByCtx = false → s.evClosed = true) ∧
  -- the reason
  (s.reader = .pub1 .cancel ∨ s.published = some .cancel → s.cancelled = true ∨ s.parser.errLate = true) ∧
  (s.parser.nilRet = true ∧ s.latched = true → s.published ≠ some .cancel) ∧
  (s.firstError = .isErr → s.published = some .fail) ∧
  (s.firstError = .isNil →
    (s.latched = false ∧ s.cancelled = true) ∨ s.published = some .cancel ∨ s.published = some .eof)

/-- closes one conjunct-preservation goal once the successor state is explicit -/
macro "proto_close" : tactic =>
  `(tactic| grind [Reader.early, ErrCh.item, ErrCh.closed, Parser.stage, Parser.nilRet, Parser.errLate])

/-- unfold one action of `step`, split its guards, substitute the successor state and close the goal -/
macro "proto_step" h:ident hi:ident : tactic =>
  `(tactic| (simp only [step] at $h:ident <;> (repeat' split at $h:ident) <;> (try (simp at $h:ident; done)) <;>
      (try simp only [Option.some.injEq] at $h:ident) <;> subst $h:ident <;> simp only [Inv] at $hi:ident ⊢ <;> proto_close))

theorem inv_init : Inv init := by
  simp only [Inv, init]; proto_close

theorem inv_net (s s' : State) (p : Packet) (hi : Inv s) (h : step s (.net p) = some s') : Inv s' := by
  obtain ⟨reader, parser, errCh, evClosed, cancelled, readerCtx, connClosed, latched, firstError, published, endedByCtx⟩ := s
  proto_step h hi

theorem inv_readFails (s s' : State) (hi : Inv s) (h : step s .readFails = some s') : Inv s' := by
  obtain ⟨reader, parser, errCh, evClosed, cancelled, readerCtx, connClosed, latched, firstError, published, endedByCtx⟩ := s
  proto_step h hi

theorem inv_handoff (s s' : State) (v : Verdict) (hi : Inv s) (h : step s (.handoff v) = some s') : Inv s' := by
  obtain ⟨reader, parser, errCh, evClosed, cancelled, readerCtx, connClosed, latched, firstError, published, endedByCtx⟩ := s
  proto_step h hi

theorem inv_publish (s s' : State) (hi : Inv s) (h : step s .publish = some s') : Inv s' := by
  obtain ⟨reader, parser, errCh, evClosed, cancelled, readerCtx, connClosed, latched, firstError, published, endedByCtx⟩ := s
  proto_step h hi

theorem inv_handlerReturns (s s' : State) (ok : Bool) (hi : Inv s) (h : step s (.handlerReturns ok) = some s') : Inv s' := by
  obtain ⟨reader, parser, errCh, evClosed, cancelled, readerCtx, connClosed, latched, firstError, published, endedByCtx⟩ := s
  proto_step h hi

theorem inv_parserSeesClosed (s s' : State) (hi : Inv s) (h : step s .parserSeesClosed = some s') : Inv s' := by
  obtain ⟨reader, parser, errCh, evClosed, cancelled, readerCtx, connClosed, latched, firstError, published, endedByCtx⟩ := s
  proto_step h hi

theorem inv_parserCtxDone (s s' : State) (hi : Inv s) (h : step s .parserCtxDone = some s') : Inv s' := by
  obtain ⟨reader, parser, errCh, evClosed, cancelled, readerCtx, connClosed, latched, firstError, published, endedByCtx⟩ := s
  proto_step h hi

theorem inv_callerCancels (s s' : State) (hi : Inv s) (h : step s .callerCancels = some s') : Inv s' := by
  obtain ⟨reader, parser, errCh, evClosed, cancelled, readerCtx, connClosed, latched, firstError, published, endedByCtx⟩ := s
  proto_step h hi

theorem inv_epilogue (s s' : State) (hi : Inv s) (h : step s .epilogue = some s') : Inv s' := by
  obtain ⟨reader, parser, errCh, evClosed, cancelled, readerCtx, connClosed, latched, firstError, published, endedByCtx⟩ := s
  proto_step h hi

theorem inv_readerCtxDone (s s' : State) (hi : Inv s) (h : step s .readerCtxDone = some s') : Inv s' := by
  obtain ⟨reader, parser, errCh, evClosed, cancelled, readerCtx, connClosed, latched, firstError, published, endedByCtx⟩ := s
  simp only [step] at h
  split at h
  · simp only [Option.some.injEq] at h
    subst h
    simp only [Inv] at hi ⊢
    rcases parser with _ | _ | e | e | e | e <;> try cases e
    all_goals proto_close
  · simp at h

theorem inv_callError (s s' : State) (hi : Inv s) (h : step s .callError = some s') : Inv s' := by
  obtain ⟨reader, parser, errCh, evClosed, cancelled, readerCtx, connClosed, latched, firstError, published, endedByCtx⟩ := s
  simp only [step] at h
  split at h
  · rename_i e
    split at h
    · rename_i r
      simp only [Option.some.injEq] at h
      subst h
      simp only [Inv] at hi ⊢
      cases e <;> cases r <;> proto_close
    · rename_i r
      simp only [Option.some.injEq] at h
      subst h
      simp only [Inv] at hi ⊢
      cases e <;> cases r <;> proto_close
    · simp only [Option.some.injEq] at h
      subst h
      simp only [Inv] at hi ⊢
      proto_close
    · simp at h
  · simp at h

/-- `Inv` is preserved by every transition -/
theorem inv_step (s s' : State) (a : Action) (hi : Inv s) (h : step s a = some s') : Inv s' := by
  cases a with
  | net p => exact inv_net s s' p hi h
  | readFails => exact inv_readFails s s' hi h
  | handoff v => exact inv_handoff s s' v hi h
  | readerCtxDone => exact inv_readerCtxDone s s' hi h
  | publish => exact inv_publish s s' hi h
  | handlerReturns ok => exact inv_handlerReturns s s' ok hi h
  | parserSeesClosed => exact inv_parserSeesClosed s s' hi h
  | parserCtxDone => exact inv_parserCtxDone s s' hi h
  | callerCancels => exact inv_callerCancels s s' hi h
  | epilogue => exact inv_epilogue s s' hi h
  | callError => exact inv_callError s s' hi h

/-- every reachable state satisfies the invariant -/
theorem reachable_inv (s : State) (hr : Reachable s) : Inv s := by
  induction hr with
  | init => exact inv_init
  | step s s' a _ h ih => exact inv_step s s' a ih h

end GV.Proto
