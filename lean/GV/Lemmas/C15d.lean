import GV.Lemmas.C15c
import GV.Lemmas.C03b
/-
  Definitions and helper lemmas for GV/Props/C15d.lean: the byte-level RESUME (GV/Lemmas/C01d.lean) and ATTEMPT
  (GV/Lemmas/C04b.lean) developments for histories in which a table id is RE-USED FOR ANOTHER TABLE (finding F13,
  GV/Lemmas/C15c.lean).

  The two developments asked of the units served from p `WFFrom.tables` (a table id names ONE table from p on) and
  `WFFrom.announced` (`annOK []`: the id of every rows change was announced at or after p).  Here both are replaced by
  `curOK []` over the rows changes served (GV/Lemmas/C15b.lean): every rows change whose table is not the one LAST
  announced for its id since p carries its own TABLE_MAP event.

  Sections: `curOK` under more / concatenated announcements; the walk over the units of GV/Lemmas/C04b.lean (`Rules`,
  any predicate closed under the one-event steps) redone for the invariant of GV/Lemmas/C15b.lean (the cache holds,
  per id, the entry of the LAST definition announced); the structures `WFFromReuse`, `WFHistFromReuse`,
  `ResumableReuse` and what they are implied by; one attempt (`outcome_lands_reuse`, `attempt_spec_reuse`), the clean
  run (`resume_lands_reuse`), the kept position (`resumable_next_reuse`), sequences of attempts.
-/
namespace GV
namespace C15d
open Bytes M GV.Props.C01 GV.Props.C01b GV.C01c GV.C01d GV.C04b

/-! ### `curOK` with older announcements added, and over concatenated lists -/

theorem lastDef_append_some {a : List W.TableDef} {id : Nat} {t : W.TableDef} (b : List W.TableDef)
    (h : C15b.lastDef a id = some t) : C15b.lastDef (a ++ b) id = some t := by
  unfold C15b.lastDef at h ⊢
  rw [List.find?_append, h]
  rfl

theorem annAfter_append (a b : List W.TableDef) (c : W.RowsChange) :
    C15b.annAfter (a ++ b) c = C15b.annAfter a c ++ b := by
  unfold C15b.annAfter
  split <;> rfl

/-- announcements OLDER than the ones counted do not matter: the most recent one for an id stays the most recent -/
theorem curOK_weaken : ∀ (cs : List W.RowsChange) (a b : List W.TableDef), C15b.curOK a cs → C15b.curOK (a ++ b) cs
  | [], _, _, _ => trivial
  | c :: cs, a, b, h => by
    obtain ⟨h1, h2⟩ := h
    refine ⟨?_, ?_⟩
    · rcases h1 with h1 | h1
      · exact Or.inl h1
      · exact Or.inr (lastDef_append_some b h1)
    · rw [annAfter_append]
      exact curOK_weaken cs _ b h2

theorem curOK_append : ∀ (x y : List W.RowsChange) (k : List W.TableDef), C15b.curOK k x → C15b.curOK [] y →
    C15b.curOK k (x ++ y)
  | [], y, k, _, hy => by simpa using curOK_weaken y [] k hy
  | _ :: x, y, _, hx, hy => ⟨hx.1, curOK_append x y _ hx.2 hy⟩

/-- every rows change carries, WITHIN ITS OWN UNIT, the definition most recently announced for its id: it has its own
    TABLE_MAP event unless its table is the one last announced for the id earlier in the unit.  (What real masters
    guarantee: a transaction carries the table maps of its rows events.)  `GV.C04b.SelfAnnounced` with `annOK` read as
    `curOK`: the two agree when an id names one table. -/
def SelfCurrent (h : W.History) : Prop := ∀ u ∈ h, C15b.curOK [] (unitRows u)

theorem curOK_self : ∀ (us : List W.Unit), SelfCurrent us → C15b.curOK [] (histRows us)
  | [], _ => trivial
  | u :: us, h => by
    rw [histRows_cons]
    exact curOK_append _ _ [] (h u List.mem_cons_self) (curOK_self us (fun x hx => h x (List.mem_cons_of_mem _ hx)))

/-! ### the walk over the units, for ANY predicate closed under the one-event steps, with the table cache tracking the
    LAST definition announced per id

  The lemmas of GV/Lemmas/C15b.lean (`announce_run` … `units_run`) with `Good env tail eb` replaced by a predicate `G`
  satisfying `GV.C04b.Rules`, as GV/Lemmas/C04b.lean does for the lemmas of GV/Lemmas/C01c.lean. -/

section walk
variable {env : Env} {G : PState → W.Pos → List W.Laid → Prop} {cfg : W.Cfg} {P : W.TableDef → Prop}

theorem announce_run (RG : Rules env G) (ctx : C15b.Ctx env P) (c : W.RowsChange) (u : Bool)
    (hP : P c.table) (hok : RowsOK cfg c) {st : PState} {file : Bytes} {cur : W.Pos} {anns : List W.TableDef} (off : Nat)
    (hI : C15b.Inv cfg P st file cur anns) (hann : c.announce = true ∨ C15b.lastDef anns c.table.id = some c.table)
    (rest : List W.AEv)
    (hb : Bnd (W.layoutAux cfg ((if c.announce then [tmAEv cfg c u] else []) ++ rest) file off))
    (k : ∀ st' off', C15b.Inv cfg P st' file cur (C15b.annAfter anns c) → st'.tran = st.tran →
      st'.autocommit = st.autocommit → findTable st'.tables c.table.id = some ⟨tmOf c.table, infoOf c.table⟩ →
      Bnd (W.layoutAux cfg rest file off') → G st' cur (W.layoutAux cfg rest file off')) :
    G st cur (W.layoutAux cfg ((if c.announce then [tmAEv cfg c u] else []) ++ rest) file off) := by
  cases ha : c.announce with
  | true =>
    simp only [ha, if_true, List.cons_append, List.nil_append, tmAEv] at hb ⊢
    obtain ⟨hb1, hb2⟩ := bnd_none hb
    obtain ⟨d, st', hcl, hs, hI', htr, hau, hf⟩ := C15b.tm_step ctx hI c.table hP hok.table off c.ts c.tmOptional hok.ts hb1
    have haa : C15b.annAfter anns c = c.table :: anns := by simp [C15b.annAfter, ha]
    exact C04b.lay_cont RG d hI.pos hcl hs (k st' _ (by rw [haa]; exact hI') htr hau hf hb2)
  | false =>
    simp only [ha, Bool.false_eq_true, if_false, List.nil_append] at hb ⊢
    have hk : C15b.lastDef anns c.table.id = some c.table := by
      rcases hann with h | h
      · rw [ha] at h; cases h
      · exact h
    have hc := hI.cache c.table.id
    rw [hk] at hc
    have haa : C15b.annAfter anns c = anns := by simp [C15b.annAfter, ha]
    exact k st off (by rw [haa]; exact hI) rfl rfl hc hb

/-! ### the changes of an open transaction -/

theorem changes_run (RG : Rules env G) (ctx : C15b.Ctx env P) :
    ∀ (cs : List W.Change) (rest : List W.AEv) (R : List W.RowsChange) (st : PState) (acc : List StreamEvent)
      (file : Bytes) (off : Nat) (cur : W.Pos) (anns : List W.TableDef),
    C15b.Inv cfg P st file cur anns → st.tran = some acc → st.autocommit = false →
    (∀ c ∈ cs, ChangeOK cfg c) → (∀ c ∈ changeRows cs, P c.table) → C15b.curOK anns (changeRows cs ++ R) →
    Bnd (W.layoutAux cfg (cs.flatMap (W.changeEvs cfg) ++ rest) file off) →
    (∀ st' off' anns', C15b.Inv cfg P st' file cur anns' → st'.tran = some (acc ++ cs.map (seOfChange env.ext)) →
      st'.autocommit = false → C15b.curOK anns' R → Bnd (W.layoutAux cfg rest file off') →
      G st' cur (W.layoutAux cfg rest file off')) →
    G st cur (W.layoutAux cfg (cs.flatMap (W.changeEvs cfg) ++ rest) file off) := by
  intro cs
  induction cs with
  | nil =>
    intro rest R st acc file off cur anns hI ht ha _ _ hann hb k
    simp only [List.flatMap_nil, List.nil_append] at hb ⊢
    exact k st off anns hI (by simpa using ht) ha (by simpa [changeRows] using hann) hb
  | cons ch cs ih =>
    intro rest R st acc file off cur anns hI ht ha hok hP hann hb k
    have hok' : ∀ c ∈ cs, ChangeOK cfg c := fun c hc => hok c (List.mem_cons_of_mem _ hc)
    cases ch with
    | stmt s =>
      obtain ⟨hs, hcat⟩ := hok (.stmt s) List.mem_cons_self
      simp only [List.flatMap_cons, W.changeEvs, W.stmtEv, List.cons_append, List.nil_append] at hb ⊢
      obtain ⟨hb1, hb2⟩ := bnd_none hb
      have hcl := cl_query env st cfg hI.fmt off s.ts s.vars s.db s.sql hs.vars hs.varsLen hs.db hs.ts hb1
      rw [hs.cat, ← hs.charset] at hcl
      refine C04b.lay_cont RG _ hI.pos hcl (sd_stmt_tx st acc ht ha s.cat _ _ s.ts hcat) ?_
      refine ih rest R _ (acc ++ [seOfStmt s]) file _ cur anns (C15b.inv_tran' hI _) rfl ha hok'
        (by simpa [changeRows] using hP) (by simpa [changeRows] using hann) hb2 ?_
      intro st' off' anns' hI' ht' ha' hann' hb'
      exact k st' off' anns' hI' (by simpa [seOfChange] using ht') ha' hann' hb'
    | rows c =>
      obtain ⟨hrc, hne⟩ := hok (.rows c) List.mem_cons_self
      have hPc : P c.table := hP c (by simp [changeRows])
      simp only [changeRows, List.cons_append] at hann
      obtain ⟨hann1, hann2⟩ := hann
      have htm : W.tableMapEv cfg c = tmAEv cfg c false := rfl
      simp only [List.flatMap_cons, W.changeEvs, List.append_assoc, htm] at hb ⊢
      refine announce_run RG ctx c false hPc hrc off hI hann1 _ hb ?_
      intro st1 off1 hI1 ht1 ha1 hf1 hb1
      simp only [W.rowsEv, List.cons_append, List.nil_append] at hb1 ⊢
      obtain ⟨hb2, hb3⟩ := bnd_none hb1
      have hcl := cl_rows env st1 cfg hI1.fmt off1 c hrc hne hb2 hf1
      refine C04b.lay_cont RG _ hI1.pos hcl (sd_rows_tx st1 acc (ht1.trans ht) (ha1.trans ha) _ _ c.ts) ?_
      refine ih rest R _ (acc ++ [seOfRows env.ext c]) file _ cur (C15b.annAfter anns c) (C15b.inv_tran' hI1 _) rfl
        (ha1.trans ha) hok' (fun x hx => hP x (by simp [changeRows, hx])) hann2 hb3 ?_
      intro st' off' anns' hI' ht' ha' hann' hb'
      exact k st' off' anns' hI' (by simpa [seOfChange] using ht') ha' hann' hb'

/-! ### whole units -/

/-- moving on to file `f`: the artificial ROTATE naming it, then its FORMAT_DESCRIPTION event -/
theorem newfile_run (RG : Rules env G) {st : PState} {file : Bytes} {cur : W.Pos}
    {anns : List W.TableDef} (hI : C15b.Inv cfg P st file cur anns) (f : Bytes) (file0 : Bytes) (seed : Nat)
    (hl : 27 + f.length + (if cfg.crc then 4 else 0) < 2 ^ 32) (l : List W.Laid)
    (hg : ∀ st', C15b.Inv cfg P st' f ⟨f, 4⟩ anns → st'.tran = st.tran → st'.autocommit = st.autocommit →
      G st' ⟨f, 4⟩ l) :
    G st cur (⟨file0, seed, seed, fakeRotBytes cfg seed 4 f, 0, .rotateTo f, false⟩
      :: ⟨f, 4, (W.fdeEvent cfg 4 none).2, (W.fdeEvent cfg 4 none).1, 0, .fileHead, false⟩ :: l) := by
  have h1 := cl_fakeRot env st cfg hI.fmt seed 4 f (by decide) hl
  refine RG.rot st { st with pos := ⟨f, ((4 : Nat) : Int)⟩ } cur _ _ _ f hI.pos h1 rfl rfl ?_
  have h2 := C01_classify_fde env { st with pos := ⟨f, ((4 : Nat) : Int)⟩ } cfg 4 none (by decide) (by simp)
  refine RG.cont _ { st with pos := ⟨f, ((4 : Nat) : Int)⟩, format := fmtOf cfg } ⟨f, 4⟩ _ _ _ rfl h2 rfl
    (Or.inr rfl) ?_
  exact hg _ (C15b.inv_format (C15b.inv_rotate hI f)) rfl rfl

/-- an event the parser ignores -/
theorem skip_run (RG : Rules env G) {st : PState} {file : Bytes} {cur : W.Pos}
    {anns : List W.TableDef} (hI : C15b.Inv cfg P st file cur anns) (typ : Nat) (body : Bytes) (u : Bool) (es : List W.AEv)
    (off : Nat) (ht : typ < 256) (hty : typ ∉ handledTypes)
    (hb : Bnd (W.layoutAux cfg (⟨typ, body, 0, .none, u⟩ :: es) file off))
    (k : Bnd (W.layoutAux cfg es file (endOf cfg off body)) →
      G st cur (W.layoutAux cfg es file (endOf cfg off body))) :
    G st cur (W.layoutAux cfg (⟨typ, body, 0, .none, u⟩ :: es) file off) := by
  obtain ⟨hb1, hb2⟩ := bnd_none hb
  exact C04b.lay_cont RG _ hI.pos (cl_skip env st cfg hI.fmt off 0 typ body ht hty (by decide) hb1) rfl (k hb2)

/-- a statement delivered on its own (DDL / statement-format DML outside a transaction) -/
theorem single_stmt_run (RG : Rules env G) {st : PState} {file : Bytes} {cur : W.Pos}
    {anns : List W.TableDef} (hI : C15b.Inv cfg P st file cur anns) (ht : st.tran = none) (ha : st.autocommit = true)
    (s : W.StmtChange) (hs : StmtOK s) (hcat : isChangeCat s.cat) (u : Bool) (es : List W.AEv) (off : Nat)
    (hb : Bnd (W.layoutAux cfg (⟨2, W.queryBody 1 0 0 s.vars s.db s.sql, s.ts, .commit [.stmt s], u⟩ :: es) file off))
    (k : ∀ st' off', C15b.Inv cfg P st' file ⟨file, off'⟩ anns → st'.tran = none → st'.autocommit = true →
      Bnd (W.layoutAux cfg es file off') → G st' ⟨file, off'⟩ (W.layoutAux cfg es file off')) :
    G st cur
      (W.layoutAux cfg (⟨2, W.queryBody 1 0 0 s.vars s.db s.sql, s.ts, .commit [.stmt s], u⟩ :: es) file off) := by
  obtain ⟨hb1, hb2⟩ := bnd_commit hb
  have hcl := cl_query env st cfg hI.fmt off s.ts s.vars s.db s.sql hs.vars hs.varsLen hs.db hs.ts hb1
  rw [hs.cat, ← hs.charset] at hcl
  refine C04b.lay_deliver RG _ hI.pos hcl ?_ (k _ _ (C15b.inv_commit hI _) rfl rfl hb2)
  rw [sd_stmt_idle st ht ha s.cat _ _ s.ts hcat, C15b.toTx_eq hI]
  rfl

/-- the units `us`, followed by more events `rest` (handled by the continuation `k`); `R` are the rows changes after
    those of `us` -/
theorem units_run (RG : Rules env G) (ctx : C15b.Ctx env P) (rest : List W.AEv) (R : List W.RowsChange) :
    ∀ (us : List W.Unit) (st : PState) (file : Bytes) (off : Nat) (cur : W.Pos) (anns : List W.TableDef),
    C15b.Inv cfg P st file cur anns → st.tran = none → st.autocommit = true →
    (∀ u ∈ us, UnitOK cfg u) → (∀ c ∈ histRows us, P c.table) → C15b.curOK anns (histRows us ++ R) →
    Bnd (W.layoutAux cfg (us.flatMap (W.unitEvs cfg) ++ rest) file off) →
    (∀ st' file' off' cur' anns', C15b.Inv cfg P st' file' cur' anns' → st'.tran = none → st'.autocommit = true →
      C15b.curOK anns' R → Bnd (W.layoutAux cfg rest file' off') →
      G st' cur' (W.layoutAux cfg rest file' off')) →
    G st cur (W.layoutAux cfg (us.flatMap (W.unitEvs cfg) ++ rest) file off) := by
  intro us
  induction us with
  | nil =>
    intro st file off cur anns hI ht ha _ _ hann hb k
    simp only [List.flatMap_nil, List.nil_append] at hb ⊢
    exact k st file off cur anns hI ht ha (by simpa [histRows] using hann) hb
  | cons u us ih =>
    intro st file off cur anns hI ht ha hok hP hann hb k
    have hok' : ∀ u ∈ us, UnitOK cfg u := fun x hx => hok x (List.mem_cons_of_mem _ hx)
    have hu := hok u List.mem_cons_self
    rw [histRows_cons] at hP
    rw [histRows_cons, List.append_assoc] at hann
    simp only [List.flatMap_cons, List.append_assoc] at hb ⊢
    cases u with
    | tx b cs close ts =>
      obtain ⟨hbeg, hcs, hclose, hts⟩ := hu
      simp only [unitRows] at hP hann
      -- the events after the changes: the closer, then the later units
      have key : ∀ (closeEv : W.AEv),
          (∀ st' off' anns', C15b.Inv cfg P st' file cur anns' → st'.tran = some (cs.map (seOfChange env.ext)) →
            st'.autocommit = false → C15b.curOK anns' (histRows us ++ R) →
            Bnd (W.layoutAux cfg (closeEv :: (us.flatMap (W.unitEvs cfg) ++ rest)) file off') →
            G st' cur (W.layoutAux cfg (closeEv :: (us.flatMap (W.unitEvs cfg) ++ rest)) file off')) →
          Bnd (W.layoutAux cfg (W.markStart ([W.stmtEv ⟨b, [], ts, [], 0, none⟩ .none] ++ cs.flatMap (W.changeEvs cfg) ++ [closeEv])
                ++ (us.flatMap (W.unitEvs cfg) ++ rest)) file off) →
          G st cur (W.layoutAux cfg (W.markStart ([W.stmtEv ⟨b, [], ts, [], 0, none⟩ .none] ++ cs.flatMap (W.changeEvs cfg) ++ [closeEv])
                ++ (us.flatMap (W.unitEvs cfg) ++ rest)) file off) := by
        intro closeEv k hb
        simp only [W.stmtEv, List.cons_append, List.nil_append, W.markStart, List.append_assoc] at hb ⊢
        obtain ⟨hb1, hb2⟩ := bnd_none hb
        have hcl := cl_query env st cfg hI.fmt off ts [] [] b (by simp) (by simp) (by simp) hts hb1
        rw [hbeg] at hcl
        refine C04b.lay_cont RG _ hI.pos hcl (SL.step_begin _ _ _) ?_
        refine changes_run RG ctx cs _ (histRows us ++ R) _ [] file _ cur anns (C15b.inv_tran hI _ _) rfl rfl hcs
          (fun c hc => hP c (List.mem_append_left _ hc)) hann hb2 ?_
        intro st' off' anns' hI' ht' ha' hann' hb'
        exact k st' off' anns' hI' (by simpa using ht') ha' hann' hb'
      cases close with
      | xid n =>
        simp only [W.unitEvs] at hb ⊢
        refine key _ ?_ hb
        intro st' off' anns' hI' ht' ha' hann' hb'
        obtain ⟨hb1, hb2⟩ := bnd_commit hb'
        have hcl := cl_xid env st' cfg hI'.fmt off' ts n hts hb1
        refine C04b.lay_deliver RG _ hI'.pos hcl ?_ (ih _ file _ _ anns' (C15b.inv_commit hI' _) rfl rfl hok'
          (fun c hc => hP c (List.mem_append_right _ hc)) hann' hb2 k)
        have := SL.step_closer (st := st') ⟨ht', ha'⟩ .xid (endOf cfg off' (W.xidBody n)) ts
        rw [C15b.toTx_eq hI']
        exact this
      | commit sql =>
        simp only [W.unitEvs, W.stmtEv] at hb ⊢
        refine key _ ?_ hb
        intro st' off' anns' hI' ht' ha' hann' hb'
        obtain ⟨hb1, hb2⟩ := bnd_commit hb'
        have hcl := cl_query env st' cfg hI'.fmt off' ts [] [] sql (by simp) (by simp) (by simp) hts hb1
        simp only [CloserOK] at hclose
        rw [hclose] at hcl
        refine C04b.lay_deliver RG _ hI'.pos hcl ?_ (ih _ file _ _ anns' (C15b.inv_commit hI' _) rfl rfl hok'
          (fun c hc => hP c (List.mem_append_right _ hc)) hann' hb2 k)
        have := SL.step_closer (st := st') ⟨ht', ha'⟩ (.commit ⟨[], Props.C16.charsetOf [], sql⟩)
          (endOf cfg off' (W.queryBody 1 0 0 [] [] sql)) ts
        rw [C15b.toTx_eq hI']
        exact this
      | rollback sql =>
        simp only [W.unitEvs, W.stmtEv] at hb ⊢
        refine key _ ?_ hb
        intro st' off' anns' hI' ht' ha' hann' hb'
        obtain ⟨hb1, hb2⟩ := bnd_commit hb'
        have hcl := cl_query env st' cfg hI'.fmt off' ts [] [] sql (by simp) (by simp) (by simp) hts hb1
        simp only [CloserOK] at hclose
        rw [hclose] at hcl
        refine C04b.lay_deliver RG _ hI'.pos hcl ?_ (ih _ file _ _ anns' (C15b.inv_commit hI' _) rfl rfl hok'
          (fun c hc => hP c (List.mem_append_right _ hc)) hann' hb2 k)
        have := SL.step_closer (st := st') ⟨ht', ha'⟩ (.rollback ⟨[], Props.C16.charsetOf [], sql⟩)
          (endOf cfg off' (W.queryBody 1 0 0 [] [] sql)) ts
        rw [C15b.toTx_eq hI']
        exact this
    | ddl s =>
      obtain ⟨hs, hcat⟩ := hu
      simp only [unitRows, List.nil_append] at hP hann
      simp only [W.unitEvs, W.stmtEv, W.markStart, List.cons_append, List.nil_append] at hb ⊢
      refine single_stmt_run RG hI ht ha s hs hcat _ _ off hb ?_
      intro st' off' hI' ht' ha' hb'
      exact ih st' file off' _ anns hI' ht' ha' hok' hP hann hb' k
    | stmtDML s =>
      obtain ⟨hs, hcat⟩ := hu
      simp only [unitRows, List.nil_append] at hP hann
      simp only [W.unitEvs, W.stmtEv, W.markStart, List.cons_append, List.nil_append] at hb ⊢
      refine single_stmt_run RG hI ht ha s hs hcat _ _ off hb ?_
      intro st' off' hI' ht' ha' hb'
      exact ih st' file off' _ anns hI' ht' ha' hok' hP hann hb' k
    | autoRows c =>
      obtain ⟨hrc, hne⟩ := hu
      simp only [unitRows, List.cons_append, List.nil_append] at hP hann
      obtain ⟨hann1, hann2⟩ := hann
      have hPc : P c.table := hP c List.mem_cons_self
      have hev : W.unitEvs cfg (.autoRows c) = (if c.announce then [tmAEv cfg c true] else []) ++
          [⟨W.rowsEventType c.kind cfg.rowsV2,
            W.rowsBody c.kind cfg.rowsV2 (if cfg.idw4 then 4 else 6) c.table.id c.flags c.extra c.table.cols
              c.presentBefore c.presentAfter c.rows, c.ts, .commit [.rows c], !c.announce⟩] := by
        simp only [W.unitEvs, W.rowsEv, W.tableMapEv, tmAEv]
        cases c.announce <;> rfl
      rw [hev, List.append_assoc] at hb ⊢
      refine announce_run RG ctx c true hPc hrc off hI hann1 _ hb ?_
      intro st1 off1 hI1 ht1 ha1 hf1 hb1
      simp only [List.cons_append, List.nil_append] at hb1 ⊢
      obtain ⟨hb2, hb3⟩ := bnd_commit hb1
      have hcl := cl_rows env st1 cfg hI1.fmt off1 c hrc hne hb2 hf1
      refine C04b.lay_deliver RG _ hI1.pos hcl ?_ (ih _ file _ _ _ (C15b.inv_commit hI1 _) rfl rfl hok'
        (fun x hx => hP x (List.mem_cons_of_mem _ hx)) hann2 hb3 k)
      rw [sd_rows_idle st1 (ht1.trans ht) (ha1.trans ha), C15b.toTx_eq hI1]
      rfl
    | rotate f =>
      simp only [unitRows, List.nil_append] at hP hann
      simp only [W.unitEvs, W.markStart, List.cons_append, List.nil_append] at hb ⊢
      rw [layoutAux_rotate] at hb ⊢
      obtain ⟨hb1, hb2⟩ := bnd_cons hb
      obtain ⟨_, hb3⟩ := bnd_cons hb2
      obtain ⟨_, hb4⟩ := bnd_cons hb3
      have hb1' : endOf cfg off (W.rotateBody 4 f) < 2 ^ 32 := hb1
      have hcl := cl_rotate env st cfg hI.fmt off 0 4 f (by decide) (by decide) hb1'
      refine RG.rot st { st with pos := ⟨f, ((4 : Nat) : Int)⟩ } cur _ _ _ f hI.pos hcl rfl rfl ?_
      have hl : 27 + f.length + (if cfg.crc then 4 else 0) < 2 ^ 32 := by
        have hlen : (W.rotateBody 4 f).length = 8 + f.length := by simp [W.rotateBody]
        have hcn : crcN cfg off = if cfg.crc then 4 else 0 := by
          unfold crcN W.crcOf Props.C16.crcLen
          cases cfg.crc <;> simp
        unfold endOf at hb1'
        rw [hlen, hcn] at hb1'
        omega
      refine newfile_run RG (C15b.inv_rotate hI f) f file _ hl _ ?_
      intro st' hI' ht' ha'
      exact ih st' f _ _ anns hI' (ht'.trans ht) (ha'.trans ha) hok' hP hann hb4 k
    | restart f =>
      simp only [unitRows, List.nil_append] at hP hann
      simp only [W.unitEvs, W.markStart, List.cons_append, List.nil_append] at hb ⊢
      rw [layoutAux_restart] at hb ⊢
      obtain ⟨hb1, hb2⟩ := bnd_cons hb
      obtain ⟨_, hb3⟩ := bnd_cons hb2
      obtain ⟨_, hb4⟩ := bnd_cons hb3
      have hb1' : endOf cfg off [] < 2 ^ 32 := hb1
      have hcl := cl_skip env st cfg hI.fmt off 0 3 [] (by decide) (by decide) (by decide) hb1'
      refine RG.cont st st cur _ _ _ hI.pos hcl rfl (Or.inl rfl) ?_
      have hl : 27 + f.length + (if cfg.crc then 4 else 0) < 2 ^ 32 := by
        have : f.length < 2 ^ 31 := hu
        simp only [Nat.reducePow] at this ⊢
        split <;> omega
      refine newfile_run RG hI f file _ hl _ ?_
      intro st' hI' ht' ha'
      exact ih st' f _ _ anns hI' (ht'.trans ht) (ha'.trans ha) hok' hP hann hb4 k
    | gtid sid gno =>
      simp only [unitRows, List.nil_append] at hP hann
      simp only [W.unitEvs, W.markStart, List.cons_append, List.nil_append] at hb ⊢
      exact skip_run RG hI _ _ _ _ off (by decide) (by decide) hb
        (fun hb' => ih st file _ cur anns hI ht ha hok' hP hann hb' k)
    | anonGtid =>
      simp only [unitRows, List.nil_append] at hP hann
      simp only [W.unitEvs, W.markStart, List.cons_append, List.nil_append] at hb ⊢
      exact skip_run RG hI _ _ _ _ off (by decide) (by decide) hb
        (fun hb' => ih st file _ cur anns hI ht ha hok' hP hann hb' k)
    | prevGtids blk =>
      simp only [unitRows, List.nil_append] at hP hann
      simp only [W.unitEvs, W.markStart, List.cons_append, List.nil_append] at hb ⊢
      exact skip_run RG hI _ _ _ _ off (by decide) (by decide) hb
        (fun hb' => ih st file _ cur anns hI ht ha hok' hP hann hb' k)
    | heartbeat =>
      simp only [unitRows, List.nil_append] at hP hann
      simp only [W.unitEvs, W.markStart, List.cons_append, List.nil_append] at hb ⊢
      exact skip_run RG hI _ _ _ _ off (by decide) (by decide) hb
        (fun hb' => ih st file _ cur anns hI ht ha hok' hP hann hb' k)
    | unknownEvent typ body =>
      obtain ⟨hlt, hty⟩ := hu
      simp only [unitRows, List.nil_append] at hP hann
      simp only [W.unitEvs, W.markStart, List.cons_append, List.nil_append] at hb ⊢
      exact skip_run RG hI _ _ _ _ off hlt hty hb
        (fun hb' => ih st file _ cur anns hI ht ha hok' hP hann hb' k)
    | unknownStmt s =>
      obtain ⟨hs, hcat⟩ := hu
      simp only [unitRows, List.nil_append] at hP hann
      simp only [W.unitEvs, W.stmtEv, W.markStart, List.cons_append, List.nil_append] at hb ⊢
      obtain ⟨hb1, hb2⟩ := bnd_none hb
      have hcl := cl_query env st cfg hI.fmt off s.ts s.vars s.db s.sql hs.vars hs.varsLen hs.db hs.ts hb1
      rw [hs.cat] at hcl
      exact C04b.lay_cont RG _ hI.pos hcl (sd_unknown st _ _ _ _ hcat) (ih st file _ cur anns hI ht ha hok' hP hann hb2 k)


end walk

/-! ### the units served, parsed with an EMPTY table cache -/

/-- the units laid out from offset `o` of p's file, parsed with an empty table cache: any handler, any cut, any
    ending (`GV.C04b.goodH_units` with "an id names one table" + `annOK []` replaced by `curOK []`) -/
theorem goodH_units_reuse (cfg : W.Cfg) (env : Env) (us : List W.Unit) (p : W.Pos) (o : Nat)
    (hu : ∀ u ∈ us, UnitOK cfg u) (ha : C15b.curOK [] (histRows us)) (hm : MapperAgrees env us)
    (hb : Bnd (W.layoutAux cfg (us.flatMap (W.unitEvs cfg)) p.file o)) :
    GoodH env { PState.init (posOf p) with format := fmtOf cfg } p
      (W.layoutAux cfg (us.flatMap (W.unitEvs cfg)) p.file o) := by
  let P : W.TableDef → Prop := fun t => ∃ c ∈ histRows us, c.table = t
  have ctx : C15b.Ctx env P := C15b.ctx_of_mapper env P (by rintro t ⟨c, hc, rfl⟩; exact hm c hc)
  have hI : C15b.Inv cfg P { PState.init (posOf p) with format := fmtOf cfg } p.file p [] := by
    refine ⟨rfl, rfl, rfl, ?_, ?_⟩
    · intro id; simp [PState.init, findTable, C15b.lastDef]
    · intro t ht; cases ht
  have hg := units_run (goodH_rules env) ctx [] [] us _ p.file o p [] hI rfl rfl hu (fun c hc => ⟨c, hc, rfl⟩)
    (by rw [List.append_nil]; exact ha) (by rw [List.append_nil]; exact hb)
    (by
      intro st' file' off' cur' anns' hI' _ _ _ _
      simp only [W.layoutAux]
      exact (goodH_rules env).nil st' cur' hI'.pos)
  rwa [List.append_nil] at hg

/-! ### the hypotheses -/

/-- `GV.C01d.WFFrom` for histories with table ids re-used for other tables: what is asked of the part served from p —
    NOTHING is asked of the units before p, and nothing of the definitions that share a table id.  `tables` (a table id
    names one table from p on) is dropped; `announced` is read as `curOK []`: the resumed replica's table cache is
    empty, so every rows change served whose table is not the one LAST announced for its id AT OR AFTER p is preceded by
    its own TABLE_MAP event. -/
structure WFFromReuse (cfg : W.Cfg) (h : W.History) (p : W.Pos) : Prop where
  /-- the artificial ROTATE naming p's file fits in an event -/
  fileLen : 27 + p.file.length + (if cfg.crc then 4 else 0) < 2 ^ 32
  units : ∀ u ∈ unitsFrom cfg h p, UnitOK cfg u
  /-- every rows change served carries the definition most recently announced for its id since p (its own
      announcement included) -/
  announced : C15b.curOK [] (histRows (unitsFrom cfg h p))
  /-- every event served ends below 4 GiB in its file -/
  offsets : ∀ e ∈ W.fromPos (W.layout cfg h) p, e.next < 2 ^ 32

/-- the hypothesis of the resume theorem with id re-use: `WFFromReuse`, and the name of p's file is not reused (the
    Spec master finds p by file name — still needed, see `GV.Props.C01d.C01_resume_reused_name_refuted`) -/
structure WFHistFromReuse (cfg : W.Cfg) (h : W.History) (p : W.Pos) : Prop extends WFFromReuse cfg h p where
  fresh : (logFiles h).count p.file ≤ 1

/-- `GV.C04b.Resumable` for histories with id re-use: `WFFromReuse` instead of `WFFrom`, `SelfCurrent` instead of
    `SelfAnnounced` -/
structure ResumableReuse (cfg : W.Cfg) (env : Env) (h : W.History) (p : W.Pos) : Prop where
  lands : Lands cfg h p
  wf : WFFromReuse cfg h p
  selfCur : SelfCurrent (unitsFrom cfg h p)
  fresh : FreshLog h
  mapper : MapperAgrees env (unitsFrom cfg h p)

theorem wfFromReuse_of_wfFrom {cfg : W.Cfg} {h : W.History} {p : W.Pos} (hwf : WFFrom cfg h p) : WFFromReuse cfg h p := by
  refine ⟨hwf.fileLen, hwf.units, ?_, hwf.offsets⟩
  refine C15b.curOK_of_annOK (fun t => ∃ c ∈ histRows (unitsFrom cfg h p), c.table = t) ?_ _ [] [] ?_ ?_ ?_ hwf.announced
  · rintro t1 t2 ⟨c1, h1, rfl⟩ ⟨c2, h2, rfl⟩ hid
    exact hwf.tables c1 h1 c2 h2 hid
  · intro id hid; cases hid
  · intro t ht; cases ht
  · intro c hc; exact ⟨c, hc, rfl⟩

theorem wfHistFromReuse_of_wfHistFrom {cfg : W.Cfg} {h : W.History} {p : W.Pos} (hwf : WFHistFrom cfg h p) :
    WFHistFromReuse cfg h p :=
  ⟨wfFromReuse_of_wfFrom hwf.toWFFrom, hwf.fresh⟩

theorem mem_histRows_of_unit {us : List W.Unit} {u : W.Unit} (hu : u ∈ us) : ∀ c ∈ unitRows u, c ∈ histRows us :=
  fun _ hc => List.mem_flatMap.mpr ⟨u, hu, hc⟩

/-- when an id names one table, announcements within every unit (`SelfAnnounced`) are `SelfCurrent` -/
theorem selfCurrent_of_selfAnnounced {us : List W.Unit}
    (ht : ∀ c1 ∈ histRows us, ∀ c2 ∈ histRows us, c1.table.id = c2.table.id → c1.table = c2.table)
    (hs : SelfAnnounced us) : SelfCurrent us := by
  intro u hu
  refine C15b.curOK_of_annOK (fun t => ∃ c ∈ histRows us, c.table = t) ?_ _ [] [] ?_ ?_ ?_ (hs u hu)
  · rintro t1 t2 ⟨c1, h1, rfl⟩ ⟨c2, h2, rfl⟩ hid
    exact ht c1 h1 c2 h2 hid
  · intro id hid; cases hid
  · intro t ht; cases ht
  · intro c hc; exact ⟨c, mem_histRows_of_unit hu c hc, rfl⟩

theorem resumableReuse_of_resumable {cfg : W.Cfg} {env : Env} {h : W.History} {p : W.Pos} (hr : Resumable cfg env h p) :
    ResumableReuse cfg env h p :=
  ⟨hr.lands, wfFromReuse_of_wfFrom hr.wf, selfCurrent_of_selfAnnounced hr.wf.tables hr.selfAnn, hr.fresh, hr.mapper⟩

theorem selfCurrent_unitsFrom {h : W.History} (hs : SelfCurrent h) (cfg : W.Cfg) (p : W.Pos) :
    SelfCurrent (unitsFrom cfg h p) :=
  fun u hu => hs u (unitsFrom_subset cfg h p u hu)

/-- the whole-history hypotheses of `GV.C15c.WFHistReuse` but for the announcements, which are asked from p on only
    (`GV.C01d.wfHistFrom_of_whole` without `tables`) -/
theorem wfHistFromReuse_of_whole (cfg : W.Cfg) (h : W.History) (p : W.Pos) (hp : p ∈ W.boundaries cfg h)
    (units : ∀ u ∈ h, UnitOK cfg u) (offsets : ∀ e ∈ W.layout cfg h, e.next < 2 ^ 32)
    (announced : C15b.curOK [] (histRows (unitsFrom cfg h p)))
    (fresh : (logFiles h).count p.file ≤ 1) : WFHistFromReuse cfg h p where
  fileLen := fileLen_of_whole cfg h p hp units offsets
  units := fun u hu => units u (unitsFrom_subset cfg h p u hu)
  announced := announced
  offsets := fun e he => offsets e ((List.dropWhile_sublist _).subset he)
  fresh := fresh

/-- at the head of the first file the hypothesis is `WFHistReuse` (plus: the first file's name is not reused) -/
theorem wfHistFromReuse_head (cfg : W.Cfg) (h : W.History) (hwf : C15c.WFHistReuse cfg h)
    (fresh : (logFiles h).count W.firstFile ≤ 1) : WFHistFromReuse cfg h ⟨W.firstFile, 4⟩ where
  fileLen := by
    have : W.firstFile.length = 10 := by decide
    show 27 + W.firstFile.length + _ < _
    rw [this]; simp only [Nat.reducePow]; split <;> omega
  units := fun u hu => hwf.units u (unitsFrom_subset cfg h _ u hu)
  announced := by rw [unitsFrom_head]; exact hwf.announced
  offsets := fun e he => hwf.offsets e ((List.dropWhile_sublist _).subset he)
  fresh := fresh

/-- a boundary, well-formed units, offsets below 4 GiB, every rows change current within its unit, no file name used
    twice, a mapper that knows every table: `ResumableReuse` — at EVERY boundary of the log -/
theorem resumableReuse_of_boundary (cfg : W.Cfg) (env : Env) (h : W.History) (p : W.Pos)
    (hp : p ∈ W.boundaries cfg h) (units : ∀ u ∈ h, UnitOK cfg u) (offsets : ∀ e ∈ W.layout cfg h, e.next < 2 ^ 32)
    (hsc : SelfCurrent h) (hf : FreshLog h) (hm : MapperAgrees env h) : ResumableReuse cfg env h p :=
  ⟨lands_of_boundary cfg h p hp (hf _),
   (wfHistFromReuse_of_whole cfg h p hp units offsets (curOK_self _ (selfCurrent_unitsFrom hsc cfg p)) (hf _)).toWFFromReuse,
   selfCurrent_unitsFrom hsc cfg p, hf, mapper_unitsFrom hm cfg p⟩

/-! ### one attempt; the clean run -/

/-- `GV.C04b.outcome_lands` under `WFFromReuse`: the outcome of ANY attempt started at p — any handler, any cut, any
    quiet ending — is the one the Spec computes from the tags of the events that arrived -/
theorem outcome_lands_reuse (cfg : W.Cfg) (env : Env) (h : W.History) (p : W.Pos) (hwf : WFFromReuse cfg h p)
    (hl : Lands cfg h p) (hm : MapperAgrees env (unitsFrom cfg h p))
    (acc : Transaction → Bool) (e : Bool) (tail : List Input) (ht : EndsWith env e tail) (k : Nat) :
    parseEvents env acc (PState.init (posOf p)) (((W.serve cfg h p).take k).map Input.event ++ tail)
      = specOut env.ext acc e ((served cfg h p).take (k - preamble cfg h p)) p :=
  outcome_lands_of cfg env h p hwf.fileLen hwf.offsets hl
    (fun o hb => goodH_units_reuse cfg env _ p o hwf.units hwf.announced hm hb) acc e tail ht k

theorem served_le_serve (cfg : W.Cfg) (h : W.History) (p : W.Pos) : (served cfg h p).length ≤ (W.serve cfg h p).length := by
  rw [serve_eq]
  simp only [List.length_cons, List.length_append, List.length_map, served]
  omega

/-- `GV.C01d.resume_lands` under `WFFromReuse` (the instance "everything arrives, everything is accepted, the channel
    closes" of `outcome_lands_reuse`) -/
theorem resume_lands_reuse (cfg : W.Cfg) (env : Env) (h : W.History) (p : W.Pos) (hwf : WFFromReuse cfg h p)
    (hl : Lands cfg h p) (hm : MapperAgrees env (unitsFrom cfg h p)) :
    parseEvents env (fun _ => true) (PState.init (posOf p)) ((W.serve cfg h p).map Input.event ++ [Input.closed])
      = ⟨(W.expected cfg h p).map (toTx env.ext), (W.expected cfg h p).map (toTx env.ext),
         posOf (W.endPos cfg h p), false, false⟩ := by
  have ho := outcome_lands_reuse cfg env h p hwf hl hm (fun _ => true) false [Input.closed] (endsWith_closed env [])
    ((W.serve cfg h p).length + (served cfg h p).length)
  rw [List.take_of_length_le (Nat.le_add_right _ _)] at ho
  have hk : (served cfg h p).length ≤ (W.serve cfg h p).length + (served cfg h p).length - preamble cfg h p := by
    have := served_le_serve cfg h p
    unfold preamble; omega
  rw [List.take_of_length_le hk, C02b.specOut_acceptAll _ _ (fun _ => rfl)] at ho
  exact ho

theorem resume_boundary_reuse (cfg : W.Cfg) (env : Env) (h : W.History) (p : W.Pos) (hp : p ∈ W.boundaries cfg h)
    (hwf : WFHistFromReuse cfg h p) (hm : MapperAgrees env h) :
    parseEvents env (fun _ => true) (PState.init (posOf p)) ((W.serve cfg h p).map Input.event ++ [Input.closed])
      = ⟨(W.expected cfg h p).map (toTx env.ext), (W.expected cfg h p).map (toTx env.ext),
         posOf (W.endPos cfg h p), false, false⟩ :=
  resume_lands_reuse cfg env h p hwf.toWFFromReuse (lands_of_boundary cfg h p hp hwf.fresh) (mapper_unitsFrom hm cfg p)

theorem clean_run_reuse (cfg : W.Cfg) (env : Env) (h : W.History) (p : W.Pos) (hr : ResumableReuse cfg env h p) :
    runClean cfg env h p = ⟨(W.expected cfg h p).map (toTx env.ext), (W.expected cfg h p).map (toTx env.ext),
      posOf (W.endPos cfg h p), false, false⟩ :=
  resume_lands_reuse cfg env h p hr.wf hr.lands hr.mapper

/-- `GV.C04b.attempt_spec` under `WFFromReuse` -/
theorem attempt_spec_reuse (cfg : W.Cfg) (env : Env) (h : W.History) (p : W.Pos) (hwf : WFFromReuse cfg h p)
    (hl : Lands cfg h p) (hm : MapperAgrees env (unitsFrom cfg h p))
    (acc : Transaction → Bool) (e : Bool) (tail : List Input) (ht : EndsWith env e tail) (k : Nat)
    (o : Outcome)
    (ho : o = parseEvents env acc (PState.init (posOf p)) (((W.serve cfg h p).take k).map Input.event ++ tail)) :
    ∃ m, m ≤ min (k - preamble cfg h p) (served cfg h p).length ∧
      o.accepted = ((W.expected cfg h p).take (doneCount cfg h p m)).map (toTx env.ext) ∧
      o.pos = posOf (keptPos cfg h p m) ∧
      o.crash = false ∧
      ((o.calls = o.accepted ∧ o.err = e ∧ m = min (k - preamble cfg h p) (served cfg h p).length) ∨
       (∃ t, (W.expected cfg h p)[doneCount cfg h p m]? = some t ∧ t.now = keptPos cfg h p m ∧
          acc (toTx env.ext t) = false ∧ o.calls = o.accepted ++ [toTx env.ext t] ∧ o.err = true)) := by
  rw [outcome_lands_reuse cfg env h p hwf hl hm acc e tail ht k] at ho
  exact attempt_spec_of cfg env.ext h p acc e k o ho

/-! ### the hypotheses carry over to the kept position -/

/-- `GV.C04b.resumable_next` under `ResumableReuse`: the position kept after ANY consumed prefix is a position the next
    attempt can start from (with an EMPTY table cache: whatever id was announced for whatever table before it), and what
    is expected from it is exactly what was not yet delivered -/
theorem resumable_next_reuse (cfg : W.Cfg) (env : Env) (h : W.History) (p : W.Pos) (hr : ResumableReuse cfg env h p)
    (m : Nat) :
    ResumableReuse cfg env h (keptPos cfg h p m) ∧
    W.expected cfg h (keptPos cfg h p m) = (W.expected cfg h p).drop (doneCount cfg h p m) ∧
    W.endPos cfg h (keptPos cfg h p m) = W.endPos cfg h p := by
  obtain ⟨hsuf, hexp, hend, hlands, hfile⟩ := resume_point cfg h hr.fresh p m
  obtain ⟨hs1, hs2, hs3⟩ := expected_split cfg h p m
  obtain ⟨hf1, hf2⟩ := served_files_short_of cfg h p hr.lands hr.wf.fileLen hr.wf.units hr.wf.offsets
  change served cfg h (keptPos cfg h p m) <:+ served cfg h p at hsuf
  change W.expected cfg h (keptPos cfg h p m) = _ at hexp
  change W.endPos cfg h (keptPos cfg h p m) = _ at hend
  change (_ → Lands cfg h (keptPos cfg h p m)) at hlands
  change (keptPos cfg h p m = p ∨ (∃ x ∈ served cfg h p, (keptPos cfg h p m).file = x.file) ∨
      (∃ x ∈ served cfg h p, ∃ g, x.tag = .rotateTo g ∧ (keptPos cfg h p m).file = g)) at hfile
  have hus := unitsFrom_suffix cfg h p _ hsuf
  have hsub : ∀ u ∈ unitsFrom cfg h (keptPos cfg h p m), u ∈ unitsFrom cfg h p := fun u hu => hus.subset hu
  have hrows : ∀ c ∈ histRows (unitsFrom cfg h (keptPos cfg h p m)), c ∈ histRows (unitsFrom cfg h p) := by
    intro c hc
    unfold histRows at hc ⊢
    obtain ⟨u, hu, hcu⟩ := List.mem_flatMap.mp hc
    exact List.mem_flatMap.mpr ⟨u, hsub u hu, hcu⟩
  have hsc : SelfCurrent (unitsFrom cfg h (keptPos cfg h p m)) := fun u hu => hr.selfCur u (hsub u hu)
  refine ⟨⟨hlands hr.lands, ⟨?_, fun u hu => hr.wf.units u (hsub u hu), curOK_self _ hsc,
      fun e he => hr.wf.offsets e (hsuf.subset he)⟩, hsc, hr.fresh, fun c hc => hr.mapper c (hrows c hc)⟩,
    hexp.trans hs2, hend.trans hs3⟩
  rcases hfile with hq | ⟨x, hx, hq⟩ | ⟨x, hx, g, hg, hq⟩
  · rw [hq]; exact hr.wf.fileLen
  · rw [hq]; exact hf1 x hx
  · rw [hq]; exact hf2 x hx g hg

/-! ### sequences of attempts -/

theorem attempts_prefix_reuse (cfg : W.Cfg) (env : Env) (h : W.History) : ∀ (p : W.Pos) (atts : List Attempt)
    (acc : List Transaction) (p' : W.Pos), Attempts cfg env h p atts acc p' → ResumableReuse cfg env h p →
    (∀ a ∈ atts, ∃ e, EndsWith env e a.tail) →
    ResumableReuse cfg env h p' ∧ ∃ n, acc = ((W.expected cfg h p).take n).map (toTx env.ext) ∧
      W.expected cfg h p' = (W.expected cfg h p).drop n ∧ W.endPos cfg h p' = W.endPos cfg h p := by
  intro p atts acc p' hatt
  induction hatt with
  | nil p => intro hr _; exact ⟨hr, 0, by simp⟩
  | cons a p q rest acc p' hq _ ih =>
    intro hr hends
    obtain ⟨e, he⟩ := hends a List.mem_cons_self
    obtain ⟨m, _, hacc, hpos, _, _⟩ := attempt_spec_reuse cfg env h p hr.wf hr.lands hr.mapper a.handler e a.tail he
      a.cut (runAttempt cfg env h a p) rfl
    have hqq : q = keptPos cfg h p m := posOf_inj (hq.symm.trans hpos)
    subst hqq
    obtain ⟨hr', hexp, hend⟩ := resumable_next_reuse cfg env h p hr m
    obtain ⟨hr'', n, h1, h2, h3⟩ := ih hr' (fun b hb => hends b (List.mem_cons_of_mem _ hb))
    refine ⟨hr'', doneCount cfg h p m + n, ?_, ?_, by rw [h3, hend]⟩
    · rw [hacc, h1, hexp, List.take_add, List.map_append]
    · rw [h2, hexp, List.drop_drop]

theorem attempts_exist_reuse (cfg : W.Cfg) (env : Env) (h : W.History) : ∀ (atts : List Attempt) (p : W.Pos),
    ResumableReuse cfg env h p → (∀ a ∈ atts, ∃ e, EndsWith env e a.tail) →
    ∃ acc p', Attempts cfg env h p atts acc p'
  | [], p, _, _ => ⟨[], p, .nil p⟩
  | a :: rest, p, hr, hends => by
    obtain ⟨e, he⟩ := hends a List.mem_cons_self
    obtain ⟨m, _, _, hpos, _, _⟩ := attempt_spec_reuse cfg env h p hr.wf hr.lands hr.mapper a.handler e a.tail he
      a.cut (runAttempt cfg env h a p) rfl
    obtain ⟨hr', _, _⟩ := resumable_next_reuse cfg env h p hr m
    obtain ⟨acc, p', hatt⟩ := attempts_exist_reuse cfg env h rest _ hr' (fun b hb => hends b (List.mem_cons_of_mem _ hb))
    exact ⟨_, p', .cons a p _ rest acc p' hpos hatt⟩

/-! ### the non-vacuity example: `GV.C15c.exReuse` continued — id 108 is shop.orders, (restart) shop.users, shop.orders
    again, shop.users again -/

/-- INSERT INTO shop.orders VALUES (7002, 99) — id 108 announced for shop.orders AGAIN, in the second file -/
def cOrders2 : W.RowsChange :=
  { C15c.cOrders with ts := 300, rows := [([], [some (.int 8 7002), some (.int 4 99)])] }
/-- INSERT INTO shop.users VALUES (43, 21) — id 108 announced for shop.users again -/
def cUsers2 : W.RowsChange :=
  { C15c.cUsers with ts := 400, rows := [([], [some (.int 4 43), some (.int 1 21)])] }
/-- INSERT INTO shop.users VALUES (44, 50), in the same transaction, WITHOUT a TABLE_MAP event of its own: shop.users
    is the table last announced for id 108 -/
def cUsers3 : W.RowsChange :=
  { C15c.cUsers with ts := 400, rows := [([], [some (.int 4 44), some (.int 1 50)])], announce := false }

/-- `exReuse` (transaction 1: shop.orders under id 108 | restart | transaction 2: shop.users under id 108) followed, in
    the second file, by transaction 3 (shop.orders under id 108 again) and transaction 4 (shop.users under id 108
    again, two rows changes, the second one relying on the first one's TABLE_MAP event) -/
def exReuse4 : W.History :=
  C15c.exReuse ++
  [.tx (asc "BEGIN") [.rows cOrders2] (.xid 6) 300,
   .tx (asc "BEGIN") [.rows cUsers2, .rows cUsers3] (.xid 7) 400]

/-- the head of the log -/
def exHead : W.Pos := ⟨W.firstFile, 4⟩
/-- the `next` label of transaction 1: the STOP event at the end of the first file -/
def exAfter1 : W.Pos := ⟨W.firstFile, 280⟩
/-- the head of the second file -/
def exHead2 : W.Pos := ⟨asc "bin.000002", 4⟩
/-- the first event (BEGIN) of transaction 3, inside the second file -/
def exTx3 : W.Pos := ⟨asc "bin.000002", 272⟩

/-- everything is accepted; the 6 packets through the XID event of transaction 1 arrive (artificial ROTATE,
    FORMAT_DESCRIPTION, BEGIN, TABLE_MAP, WRITE_ROWS, XID); then the context is cancelled -/
def exCutAfter1 : Attempt := ⟨fun _ => true, 6, [.cancelled]⟩

end C15d
end GV
