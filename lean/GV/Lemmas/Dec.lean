import GV.Lemmas.Bytes
/- Shared lemmas about decimal text. -/
namespace GV

theorem natDec_lt (n : Nat) (h : n < 10) : natDec n = [digit n] := by
  rw [natDec]; simp [h]

theorem natDec_ge (n : Nat) (h : 10 ≤ n) : natDec n = natDec (n / 10) ++ [digit (n % 10)] := by
  rw [natDec]; simp [Nat.not_lt.mpr h]

theorem natDec_ne_nil (n : Nat) : natDec n ≠ [] := by
  by_cases h : n < 10
  · simp [natDec_lt n h]
  · simp [natDec_ge n (by omega)]

@[simp] theorem digitsN_length (k n : Nat) : (digitsN k n).length = k := by
  induction k generalizing n with
  | zero => rfl
  | succ k ih => simp [digitsN, ih]

theorem digit_toNat (d : Nat) : (digit d).toNat = 48 + d % 10 := by
  unfold digit
  rw [UInt8.toNat_ofNat']
  omega

theorem isDigit_digit (d : Nat) : isDigit (digit d) = true := by
  simp [isDigit, digit_toNat]; omega

theorem natDec_length_le (k n : Nat) (hk : 0 < k) (h : n < 10 ^ k) : (natDec n).length ≤ k := by
  induction k generalizing n with
  | zero => omega
  | succ k ih =>
    by_cases h10 : n < 10
    · simp [natDec_lt n h10]
    · rw [natDec_ge n (by omega)]
      have hk' : 0 < k := by
        rcases k with _ | k
        · simp at h; omega
        · omega
      have := ih (n / 10) hk' (by rw [Nat.pow_succ] at h; omega)
      simp; omega

/-- `%0kd` of a number with at most k digits is exactly its k digits -/
theorem padMin_eq_digitsN (k n : Nat) (h : n < 10 ^ k) : 0 < k → padMin k n = digitsN k n := by
  induction k generalizing n with
  | zero => intro h0; omega
  | succ k ih =>
    intro _
    by_cases h10 : n < 10
    · -- single digit: k zeros then the digit
      unfold padMin
      rw [natDec_lt n h10]
      have hz : ∀ j, digitsN j 0 = List.replicate j (48 : UInt8) := by
        intro j; induction j with
        | zero => rfl
        | succ j ihj =>
          simp only [digitsN, Nat.zero_div, ihj]
          have : digit (0 % 10) = (48 : UInt8) := by decide
          rw [this, ← List.replicate_succ']
      simp only [digitsN, Nat.div_eq_of_lt h10, hz, Nat.mod_eq_of_lt h10]
      simp
    · have hk' : 0 < k := by
        rcases k with _ | k
        · simp at h; omega
        · omega
      have hdiv : n / 10 < 10 ^ k := by rw [Nat.pow_succ] at h; omega
      have := ih (n / 10) hdiv hk'
      unfold padMin at this ⊢
      rw [natDec_ge n (by omega)]
      simp only [digitsN, List.length_append, List.length_singleton]
      rw [← this]
      have hl := natDec_length_le k (n / 10) hk' hdiv
      have : k + 1 - ((natDec (n / 10)).length + 1) = k - (natDec (n / 10)).length := by omega
      rw [this, List.append_assoc]

theorem decValueAux_append_digit (acc : Nat) (t : Bytes) (d : Nat) (hd : d < 10) (r : Nat)
    (h : decValueAux acc t = some r) : decValueAux acc (t ++ [digit d]) = some (r * 10 + d) := by
  induction t generalizing acc with
  | nil =>
    simp only [decValueAux] at h
    cases h
    simp [decValueAux, isDigit_digit, digit_toNat, Nat.mod_eq_of_lt hd]
  | cons c cs ih =>
    simp only [List.cons_append, decValueAux] at h ⊢
    split at h
    · rename_i hc; simp [hc]; exact ih _ h
    · cases h

theorem decValueAux_natDec (n : Nat) : decValueAux 0 (natDec n) = some n := by
  induction n using Nat.strongRecOn with
  | _ n ih =>
    by_cases h : n < 10
    · rw [natDec_lt n h]
      simp [decValueAux, isDigit_digit, digit_toNat, Nat.mod_eq_of_lt h]
    · rw [natDec_ge n (by omega)]
      have := decValueAux_append_digit 0 (natDec (n / 10)) (n % 10) (Nat.mod_lt _ (by omega)) (n / 10) (ih (n / 10) (by omega))
      rw [this]; congr 1; omega

/-- the text of `natDec n` denotes `n` -/
theorem decValue_natDec (n : Nat) : decValue (natDec n) = some n := by
  unfold decValue
  have := natDec_ne_nil n
  split
  · contradiction
  · exact decValueAux_natDec n

theorem natDec_all_digits (n : Nat) : ∀ c ∈ natDec n, isDigit c = true := by
  induction n using Nat.strongRecOn with
  | _ n ih =>
    by_cases h : n < 10
    · rw [natDec_lt n h]; simp [isDigit_digit]
    · rw [natDec_ge n (by omega)]
      intro c hc
      simp at hc
      rcases hc with hc | hc
      · exact ih (n / 10) (by omega) c hc
      · subst hc; exact isDigit_digit _

theorem natDec_head (n : Nat) : (natDec n).head? = some 48 → n = 0 := by
  induction n using Nat.strongRecOn with
  | _ n ih =>
    by_cases h : n < 10
    · rw [natDec_lt n h]
      intro hh
      simp at hh
      have := congrArg UInt8.toNat hh
      rw [digit_toNat] at this
      simp at this; omega
    · rw [natDec_ge n (by omega)]
      intro hh
      have hne := natDec_ne_nil (n / 10)
      have hh' : (natDec (n / 10)).head? = some 48 := by
        cases hx : natDec (n / 10) with
        | nil => exact absurd hx hne
        | cons a as => rw [hx] at hh; simpa using hh
      have := ih (n / 10) (by omega) hh'
      omega

/-- `natDec n` is the canonical decimal text of `n` -/
theorem natDec_canonical (n : Nat) : CanonicalNat (natDec n) := by
  refine ⟨natDec_ne_nil n, natDec_all_digits n, ?_⟩
  intro h
  have := natDec_head n h
  subst this
  rw [natDec_lt 0 (by omega)]; decide

end GV
