import GV.Model.Rows
import GV.Spec.CellWF
import GV.Lemmas.Dec
import GV.Lemmas.C09
import GV.Lemmas.C10
import GV.Lemmas.C11
import GV.Lemmas.C12
import GV.Lemmas.C13
import GV.Lemmas.C14
import GV.Lemmas.C15
import GV.Props.C09
import GV.Props.C10
import GV.Props.C11
import GV.Props.C12
import GV.Props.C13
import GV.Props.C14
import GV.Props.C15
/- helper lemmas for GV/Props/C09b.lean -/
namespace GV
namespace C09R
open Bytes M

/-! ### position-shift lemmas: a prefix in front of the buffer shifts every access uniformly -/

theorem get_shift (pre data : Bytes) (k : Nat) : Bytes.get (pre ++ data) (pre.length + k) = Bytes.get data k := by
  simp [Bytes.get, List.getElem?_append_right]

theorem slice_shift (pre data : Bytes) (a b : Nat) :
    Bytes.slice (pre ++ data) (pre.length + a) (pre.length + b) = Bytes.slice data a b := by
  unfold Bytes.slice
  have e1 : (pre.length + a ≤ pre.length + b ∧ pre.length + b ≤ (pre ++ data).length) ↔ (a ≤ b ∧ b ≤ data.length) := by
    rw [List.length_append]; omega
  have e2 : pre.length + b - (pre.length + a) = b - a := by omega
  have e3 : List.drop (pre.length + a) (pre ++ data) = List.drop a data := by
    rw [List.drop_append]; simp
  simp only [e1, e2, e3]

theorem readLE_shift (pre data : Bytes) (p w : Nat) : readLE (pre ++ data) (pre.length + p) w = readLE data p w := by
  unfold readLE; rw [Nat.add_assoc, slice_shift]

theorem readBE_shift (pre data : Bytes) (p w : Nat) : readBE (pre ++ data) (pre.length + p) w = readBE data p w := by
  unfold readBE; rw [Nat.add_assoc, slice_shift]

theorem leIdx_shift (pre data : Bytes) (p w : Nat) : leIdx (pre ++ data) (pre.length + p) w = leIdx data p w := by
  induction w generalizing p with
  | zero => rfl
  | succ w ih => simp only [leIdx, get_shift, Nat.add_assoc, ih]

theorem beIdx_shift (pre data : Bytes) (p w : Nat) : beIdx (pre ++ data) (pre.length + p) w = beIdx data p w := by
  induction w generalizing p with
  | zero => rfl
  | succ w ih => simp only [beIdx, get_shift, Nat.add_assoc, ih]

theorem blobLen_shift (pre data : Bytes) (p md : Nat) : blobLen (pre ++ data) (pre.length + p) md = blobLen data p md := by
  unfold blobLen; rw [leIdx_shift]

theorem fracSuffix_shift (pre data : Bytes) (p md : Nat) :
    fracSuffix (pre ++ data) (pre.length + p) md = fracSuffix data p md := by
  unfold fracSuffix; simp only [beIdx_shift]

theorem decimalBytes_shift (pre data : Bytes) (p md : Nat) :
    decimalBytes (pre ++ data) (pre.length + p) md = decimalBytes data p md := by
  unfold decimalBytes; simp only [Nat.add_assoc, slice_shift]

theorem setMask_shift (pre data : Bytes) (p l i : Nat) :
    cellBytes.setMask (pre ++ data) (pre.length + p) l i = cellBytes.setMask data p l i := by
  induction l generalizing i with
  | zero => rfl
  | succ l ih => simp only [cellBytes.setMask, get_shift, Nat.add_assoc, ih]

theorem cellLength_shift (pre data : Bytes) (p typ md : Nat) :
    cellLength (pre ++ data) (pre.length + p) typ md = cellLength data p typ md := by
  unfold cellLength
  simp only [leIdx_shift, get_shift, blobLen_shift]

theorem cellBytes_shift (E : Ext) (pre data : Bytes) (p typ md : Nat) (u : Bool) :
    cellBytes E (pre ++ data) (pre.length + p) typ md u = cellBytes E data p typ md u := by
  unfold cellBytes
  simp only [Nat.add_assoc, get_shift, slice_shift, readLE_shift, readBE_shift, leIdx_shift, beIdx_shift,
    blobLen_shift, fracSuffix_shift, decimalBytes_shift, setMask_shift]

theorem cellLength_at (pre data : Bytes) (typ md : Nat) :
    cellLength (pre ++ data) pre.length typ md = cellLength data 0 typ md := by
  simpa using cellLength_shift pre data 0 typ md

theorem cellBytes_at (E : Ext) (pre data : Bytes) (typ md : Nat) (u : Bool) :
    cellBytes E (pre ++ data) pre.length typ md u = cellBytes E data 0 typ md u := by
  simpa using cellBytes_shift E pre data 0 typ md u

/-! ### the uniform cell theorem at position 0, assembled from C10–C13 -/

theorem cl_fixed (data : Bytes) (pos typ md n : Nat) (h : lookup Facts.cellLengthFixed typ = some n) :
    cellLength data pos typ md = .ok n := C09.cl_some data pos typ md n h

abbrev txt (E : Ext) (md : Nat) (v : W.CellVal) : Bytes :=
  W.text md (fun sec => printTimestamp E sec) E.fmtFloat32 E.fmtFloat64 v

theorem cell0_int (E : Ext) (typ md w : Nat) (v : Int) (rest : Bytes) (h : W.CellOK typ md false (.int w v)) :
    cellLength (W.cell typ md (.int w v) ++ rest) 0 typ md = .ok (W.cell typ md (.int w v)).length ∧
    cellBytes E (W.cell typ md (.int w v) ++ rest) 0 typ md false
      = .ok (txt E md (.int w v), (W.cell typ md (.int w v)).length) := by
  obtain ⟨hw, _, hv⟩ := h
  have hb := Props.C10.C10_int_signed E w typ md hw v hv rest
  have hl : (W.cell typ md (.int w v)).length = w := by simp [W.cell]
  refine ⟨?_, by rw [hb, hl]; rfl⟩
  rw [hl]
  simp [W.intTypes] at hw
  rcases hw with ⟨rfl, rfl⟩ | ⟨rfl, rfl⟩ | ⟨rfl, rfl⟩ | ⟨rfl, rfl⟩ | ⟨rfl, rfl⟩ <;> exact cl_fixed _ _ _ _ _ (by decide)

theorem cell0_uint (E : Ext) (typ md w n : Nat) (rest : Bytes) (h : W.CellOK typ md true (.uint w n)) :
    cellLength (W.cell typ md (.uint w n) ++ rest) 0 typ md = .ok (W.cell typ md (.uint w n)).length ∧
    cellBytes E (W.cell typ md (.uint w n) ++ rest) 0 typ md true
      = .ok (txt E md (.uint w n), (W.cell typ md (.uint w n)).length) := by
  obtain ⟨hw, _, hv⟩ := h
  have hb := Props.C10.C10_int_unsigned E w typ md hw n hv rest
  have hl : (W.cell typ md (.uint w n)).length = w := by simp [W.cell]
  refine ⟨?_, by rw [hb, hl]; rfl⟩
  rw [hl]
  simp [W.intTypes] at hw
  rcases hw with ⟨rfl, rfl⟩ | ⟨rfl, rfl⟩ | ⟨rfl, rfl⟩ | ⟨rfl, rfl⟩ | ⟨rfl, rfl⟩ <;> exact cl_fixed _ _ _ _ _ (by decide)

theorem cell0_f32 (E : Ext) (typ md b : Nat) (u : Bool) (rest : Bytes) (h : W.CellOK typ md u (.f32 b)) :
    cellLength (W.cell typ md (.f32 b) ++ rest) 0 typ md = .ok (W.cell typ md (.f32 b)).length ∧
    cellBytes E (W.cell typ md (.f32 b) ++ rest) 0 typ md u
      = .ok (txt E md (.f32 b), (W.cell typ md (.f32 b)).length) := by
  obtain ⟨rfl, hb⟩ := h
  have hl : (W.cell 4 md (.f32 b)).length = 4 := by simp [W.cell]
  rw [hl]
  exact ⟨cl_fixed _ _ _ _ _ (by decide), (Props.C10.C10_float_partial E md u rest).1 b hb⟩

theorem cell0_f64 (E : Ext) (typ md b : Nat) (u : Bool) (rest : Bytes) (h : W.CellOK typ md u (.f64 b)) :
    cellLength (W.cell typ md (.f64 b) ++ rest) 0 typ md = .ok (W.cell typ md (.f64 b)).length ∧
    cellBytes E (W.cell typ md (.f64 b) ++ rest) 0 typ md u
      = .ok (txt E md (.f64 b), (W.cell typ md (.f64 b)).length) := by
  obtain ⟨rfl, hb⟩ := h
  have hl : (W.cell 5 md (.f64 b)).length = 8 := by simp [W.cell]
  rw [hl]
  exact ⟨cl_fixed _ _ _ _ _ (by decide), (Props.C10.C10_float_partial E md u rest).2 b hb⟩

theorem cell0_year (E : Ext) (typ md b : Nat) (u : Bool) (rest : Bytes) (h : W.CellOK typ md u (.year b)) :
    cellLength (W.cell typ md (.year b) ++ rest) 0 typ md = .ok (W.cell typ md (.year b)).length ∧
    cellBytes E (W.cell typ md (.year b) ++ rest) 0 typ md u
      = .ok (txt E md (.year b), (W.cell typ md (.year b)).length) := by
  obtain ⟨rfl, hb⟩ := h
  have hl : (W.cell 13 md (.year b)).length = 1 := by simp [W.cell]
  rw [hl]
  exact ⟨cl_fixed _ _ _ _ _ (by decide), Props.C10.C10_year E md b hb u rest⟩

theorem cell0_bit (E : Ext) (typ md : Nat) (bs : Bytes) (u : Bool) (rest : Bytes) (h : W.CellOK typ md u (.bit bs)) :
    cellLength (W.cell typ md (.bit bs) ++ rest) 0 typ md = .ok (W.cell typ md (.bit bs)).length ∧
    cellBytes E (W.cell typ md (.bit bs) ++ rest) 0 typ md u
      = .ok (txt E md (.bit bs), (W.cell typ md (.bit bs)).length) := by
  have hl : (W.cell typ md (.bit bs)).length = bs.length := rfl
  rw [hl]
  rcases h with ⟨rfl, nbits, h1, h2, rfl, hlen⟩ | ⟨rfl, hmd, hlen⟩
  · rw [hlen]
    refine ⟨?_, Props.C10.C10_bit E nbits ⟨h1, h2⟩ bs hlen u rest⟩
    have hmd : u16 (u16 ((nbits / 8 * 256 + nbits % 8) / 256 * 8) + (nbits / 8 * 256 + nbits % 8) % 256) = nbits := by
      unfold u16; omega
    rw [C09.cl_none _ _ _ _ (by decide)]
    simp only [Nat.reduceEqDiff, or_self, ↓reduceIte, hmd]
  · rw [hlen]
    refine ⟨?_, Props.C10.C10_set_raw E md hmd bs hlen u rest⟩
    rw [C09.cl_none _ _ _ _ (by decide)]
    simp only [Nat.reduceEqDiff, or_self, or_true, ↓reduceIte, Nat.mod_eq_of_lt hmd]

theorem cell0_enum (E : Ext) (typ md w n : Nat) (u : Bool) (rest : Bytes) (h : W.CellOK typ md u (.enum w n)) :
    cellLength (W.cell typ md (.enum w n) ++ rest) 0 typ md = .ok (W.cell typ md (.enum w n)).length ∧
    cellBytes E (W.cell typ md (.enum w n) ++ rest) 0 typ md u
      = .ok (txt E md (.enum w n), (W.cell typ md (.enum w n)).length) := by
  have hl : (W.cell typ md (.enum w n)).length = w := by simp [W.cell]
  rw [hl]
  obtain ⟨ht, hw, hn⟩ := h
  have hb := Props.C10.C10_enum E w n hw hn u rest
  rcases ht with ⟨rfl, rfl⟩ | ⟨rfl, rfl⟩
  · refine ⟨?_, hb.1⟩
    rw [C09.cl_none _ _ _ _ (by decide)]
    have : md % 256 = md := by omega
    simp only [Nat.reduceEqDiff, or_self, true_or, ↓reduceIte, this]
  · refine ⟨?_, hb.2⟩
    rw [C09.cl_none _ _ _ _ (by decide)]
    have h1 : (247 * 256 + w) / 256 = 247 := by omega
    have h2 : (247 * 256 + w) % 256 = w := by omega
    simp only [Nat.reduceEqDiff, or_self, true_or, ↓reduceIte, h1, h2]

theorem cell0_set (E : Ext) (typ md w n : Nat) (u : Bool) (rest : Bytes) (h : W.CellOK typ md u (.set w n)) :
    cellLength (W.cell typ md (.set w n) ++ rest) 0 typ md = .ok (W.cell typ md (.set w n)).length ∧
    cellBytes E (W.cell typ md (.set w n) ++ rest) 0 typ md u
      = .ok (txt E md (.set w n), (W.cell typ md (.set w n)).length) := by
  have hl : (W.cell typ md (.set w n)).length = w := by simp [W.cell]
  rw [hl]
  obtain ⟨rfl, rfl, h1, h8, hn⟩ := h
  refine ⟨?_, Props.C10.C10_set E w n ⟨h1, h8⟩ hn u rest⟩
  rw [C09.cl_none _ _ _ _ (by decide)]
  have h1 : (248 * 256 + w) / 256 = 248 := by omega
  have h2 : (248 * 256 + w) % 256 = w := by omega
  simp only [Nat.reduceEqDiff, or_self, or_true, ↓reduceIte, h1, h2]

theorem cell0_dec (E : Ext) (typ md : Nat) (neg : Bool) (i f : List Nat) (u : Bool) (rest : Bytes)
    (h : W.CellOK typ md u (.dec neg i f)) :
    cellLength (W.cell typ md (.dec neg i f) ++ rest) 0 typ md = .ok (W.cell typ md (.dec neg i f)).length ∧
    cellBytes E (W.cell typ md (.dec neg i f) ++ rest) 0 typ md u
      = .ok (txt E md (.dec neg i f), (W.cell typ md (.dec neg i f)).length) := by
  obtain ⟨rfl, p, s, rfl, hp1, hp2, hs1, hs2, hi, hf, hid, hfd⟩ := h
  refine ⟨Props.C11.C11_length p s ⟨hp1, hp2⟩ ⟨hs1, hs2⟩ neg i f ⟨hi, hf, hid, hfd⟩ _ _, ?_⟩
  rw [C11.cellBytes_246, txt, C11.text_dec]
  exact C11.decimalBytes_enc p s ⟨hp1, hp2⟩ ⟨hs1, hs2⟩ neg i f hi hf hid hfd rest

theorem cell0_date (E : Ext) (typ md y m d : Nat) (u : Bool) (rest : Bytes) (h : W.CellOK typ md u (.date y m d)) :
    cellLength (W.cell typ md (.date y m d) ++ rest) 0 typ md = .ok (W.cell typ md (.date y m d)).length ∧
    cellBytes E (W.cell typ md (.date y m d) ++ rest) 0 typ md u
      = .ok (txt E md (.date y m d), (W.cell typ md (.date y m d)).length) := by
  have hl : (W.cell typ md (.date y m d)).length = 3 := by simp [W.cell]
  rw [hl]
  obtain ⟨ht, hy, hm, hd⟩ := h
  refine ⟨?_, Props.C12.C12_date E typ md y m d ht hy hm hd u rest _ _ _⟩
  rcases ht with rfl | rfl <;> exact cl_fixed _ _ _ _ _ (by decide)

theorem cell0_time (E : Ext) (typ md : Nat) (neg : Bool) (hh m s : Nat) (u : Bool) (rest : Bytes)
    (h : W.CellOK typ md u (.time neg hh m s)) :
    cellLength (W.cell typ md (.time neg hh m s) ++ rest) 0 typ md = .ok (W.cell typ md (.time neg hh m s)).length ∧
    cellBytes E (W.cell typ md (.time neg hh m s) ++ rest) 0 typ md u
      = .ok (txt E md (.time neg hh m s), (W.cell typ md (.time neg hh m s)).length) := by
  have hl : (W.cell typ md (.time neg hh m s)).length = 3 := by simp [W.cell]
  rw [hl]
  obtain ⟨rfl, h1, h2, h3, hz⟩ := h
  exact ⟨cl_fixed _ _ _ _ _ (by decide), Props.C12.C12_time_old E md hh m s neg h1 h2 h3 hz u rest _ _ _⟩

theorem cell0_datetime (E : Ext) (typ md y mo d hh mi s : Nat) (u : Bool) (rest : Bytes)
    (h : W.CellOK typ md u (.datetime y mo d hh mi s)) :
    cellLength (W.cell typ md (.datetime y mo d hh mi s) ++ rest) 0 typ md
      = .ok (W.cell typ md (.datetime y mo d hh mi s)).length ∧
    cellBytes E (W.cell typ md (.datetime y mo d hh mi s) ++ rest) 0 typ md u
      = .ok (txt E md (.datetime y mo d hh mi s), (W.cell typ md (.datetime y mo d hh mi s)).length) := by
  have hl : (W.cell typ md (.datetime y mo d hh mi s)).length = 8 := by simp [W.cell]
  rw [hl]
  obtain ⟨rfl, h1, h2, h3, h4, h5, h6⟩ := h
  exact ⟨cl_fixed _ _ _ _ _ (by decide), Props.C12.C12_datetime_old E md y mo d hh mi s h1 h2 h3 h4 h5 h6 u rest _ _ _⟩

theorem ts_text (E : Ext) (sec : Nat) :
    (if sec = 0 then asc "0000-00-00 00:00:00" else printTimestamp E sec) = printTimestamp E sec := by
  split
  · rename_i h; subst h; simp [printTimestamp]
  · rfl

theorem cell0_timestamp (E : Ext) (typ md sec : Nat) (u : Bool) (rest : Bytes)
    (h : W.CellOK typ md u (.timestamp sec)) :
    cellLength (W.cell typ md (.timestamp sec) ++ rest) 0 typ md = .ok (W.cell typ md (.timestamp sec)).length ∧
    cellBytes E (W.cell typ md (.timestamp sec) ++ rest) 0 typ md u
      = .ok (txt E md (.timestamp sec), (W.cell typ md (.timestamp sec)).length) := by
  have hl : (W.cell typ md (.timestamp sec)).length = 4 := by simp [W.cell]
  rw [hl]
  obtain ⟨rfl, h1⟩ := h
  refine ⟨cl_fixed _ _ _ _ _ (by decide), ?_⟩
  rw [(Props.C12.C12_timestamp_partial E md sec h1 u rest).1]
  simp only [txt, W.text, ts_text]

theorem cell0_time2 (E : Ext) (typ md : Nat) (neg : Bool) (hh m s frac : Nat) (u : Bool) (rest : Bytes)
    (h : W.CellOK typ md u (.time2 neg hh m s frac)) :
    cellLength (W.cell typ md (.time2 neg hh m s frac) ++ rest) 0 typ md
      = .ok (W.cell typ md (.time2 neg hh m s frac)).length ∧
    cellBytes E (W.cell typ md (.time2 neg hh m s frac) ++ rest) 0 typ md u
      = .ok (txt E md (.time2 neg hh m s frac), (W.cell typ md (.time2 neg hh m s frac)).length) := by
  have hl : (W.cell typ md (.time2 neg hh m s frac)).length = 3 + (md + 1) / 2 := by simp [W.cell, W.fracBytes]
  rw [hl]
  obtain ⟨rfl, hf, h1, h2, h3, hfr, hz⟩ := h
  refine ⟨?_, Props.C12.C12_time2 E md hh m s frac neg hf h1 h2 h3 hfr hz u rest _ _ _⟩
  rw [C09.cl_none _ _ _ _ (by decide)]
  simp only [Nat.reduceEqDiff, or_self, ↓reduceIte]

theorem cell0_datetime2 (E : Ext) (typ md y mo d hh mi s frac : Nat) (u : Bool) (rest : Bytes)
    (h : W.CellOK typ md u (.datetime2 y mo d hh mi s frac)) :
    cellLength (W.cell typ md (.datetime2 y mo d hh mi s frac) ++ rest) 0 typ md
      = .ok (W.cell typ md (.datetime2 y mo d hh mi s frac)).length ∧
    cellBytes E (W.cell typ md (.datetime2 y mo d hh mi s frac) ++ rest) 0 typ md u
      = .ok (txt E md (.datetime2 y mo d hh mi s frac), (W.cell typ md (.datetime2 y mo d hh mi s frac)).length) := by
  have hl : (W.cell typ md (.datetime2 y mo d hh mi s frac)).length = 5 + (md + 1) / 2 := by
    simp [W.cell, W.fracBytes]
  rw [hl]
  obtain ⟨rfl, hf, h1, h2, h3, h4, h5, h6, hfr⟩ := h
  refine ⟨?_, Props.C12.C12_datetime2 E md y mo d hh mi s frac hf h1 h2 h3 h4 h5 h6 hfr u rest _ _ _⟩
  rw [C09.cl_none _ _ _ _ (by decide)]
  simp only [Nat.reduceEqDiff, or_self, ↓reduceIte]

theorem cell0_timestamp2 (E : Ext) (typ md sec frac : Nat) (u : Bool) (rest : Bytes)
    (h : W.CellOK typ md u (.timestamp2 sec frac)) :
    cellLength (W.cell typ md (.timestamp2 sec frac) ++ rest) 0 typ md
      = .ok (W.cell typ md (.timestamp2 sec frac)).length ∧
    cellBytes E (W.cell typ md (.timestamp2 sec frac) ++ rest) 0 typ md u
      = .ok (txt E md (.timestamp2 sec frac), (W.cell typ md (.timestamp2 sec frac)).length) := by
  have hl : (W.cell typ md (.timestamp2 sec frac)).length = 4 + (md + 1) / 2 := by simp [W.cell, W.fracBytes]
  rw [hl]
  obtain ⟨rfl, hf, h1, hfr⟩ := h
  refine ⟨?_, ?_⟩
  · rw [C09.cl_none _ _ _ _ (by decide)]
    simp only [Nat.reduceEqDiff, or_self, ↓reduceIte]
  · rw [Props.C12.C12_timestamp2_partial E md sec frac hf h1 hfr u rest]
    simp only [txt, W.text, ts_text]

theorem cell0_str (E : Ext) (typ md : Nat) (b : Bytes) (u : Bool) (rest : Bytes) (h : W.CellOK typ md u (.str b)) :
    cellLength (W.cell typ md (.str b) ++ rest) 0 typ md = .ok (W.cell typ md (.str b)).length ∧
    cellBytes E (W.cell typ md (.str b) ++ rest) 0 typ md u
      = .ok (txt E md (.str b), (W.cell typ md (.str b)).length) := by
  have hlen := Props.C13.C13_lengths typ md b rest h
  refine ⟨hlen, ?_⟩
  have key : ∀ n, cellBytes E (W.cell typ md (.str b) ++ rest) 0 typ md u = .ok (b, n) → (typ ≠ 17 ∧ typ ≠ 18) →
      cellBytes E (W.cell typ md (.str b) ++ rest) 0 typ md u = .ok (b, (W.cell typ md (.str b)).length) := by
    intro n hb ht
    have := Props.C09.C09_len_agrees E _ 0 typ md u _ n b (by omega) hlen hb
    rw [this]; exact hb
  rcases h with ⟨ht, hmd, hb⟩ | ⟨rfl, maxLen, hm, rfl, hb⟩ | ⟨ht, h1, h4, hb⟩
  · exact key _ (Props.C13.C13_varchar E typ md ht hmd b hb u rest) (by omega)
  · exact key _ (Props.C13.C13_char E maxLen hm b hb u rest) (by omega)
  · exact key _ (Props.C13.C13_blob E typ md ht ⟨h1, h4⟩ b hb u rest) (by omega)

/-- JSON columns: the length-prefixed binary document decodes to the document's text; the document holds no DOUBLE,
    so the text is the same for every float formatter (`C14.render_noDbl`) -/
theorem cell0_raw (E : Ext) (typ md : Nat) (b t : Bytes) (u : Bool) (rest : Bytes) (h : W.CellOK typ md u (.raw b t)) :
    cellLength (W.cell typ md (.raw b t) ++ rest) 0 typ md = .ok (W.cell typ md (.raw b t)).length ∧
    cellBytes E (W.cell typ md (.raw b t) ++ rest) 0 typ md u
      = .ok (txt E md (.raw b t), (W.cell typ md (.raw b t)).length) := by
  obtain ⟨rfl, h1, h4, d, hwf, hnd, hlen, rfl, rfl⟩ := h
  have hdoc := Props.C14.C14_doc E d hwf
  rw [C14.render_noDbl E.fmtFloat64E (fun _ => []) true d hnd] at hdoc
  have := C14.cell_json_at E [] (W.jsonb d) rest _ md u h1 h4 hlen hdoc
  simpa [W.cell, txt, W.text] using this

theorem cell0 (E : Ext) (typ md : Nat) (u : Bool) (v : W.CellVal) (h : W.CellOK typ md u v) (rest : Bytes) :
    cellLength (W.cell typ md v ++ rest) 0 typ md = .ok (W.cell typ md v).length ∧
    cellBytes E (W.cell typ md v ++ rest) 0 typ md u = .ok (txt E md v, (W.cell typ md v).length) := by
  cases v with
  | int w v => obtain rfl : u = false := h.2.1; exact cell0_int E typ md w v rest h
  | uint w n => obtain rfl : u = true := h.2.1; exact cell0_uint E typ md w n rest h
  | f32 b => exact cell0_f32 E typ md b u rest h
  | f64 b => exact cell0_f64 E typ md b u rest h
  | year b => exact cell0_year E typ md b u rest h
  | bit bs => exact cell0_bit E typ md bs u rest h
  | enum w n => exact cell0_enum E typ md w n u rest h
  | set w n => exact cell0_set E typ md w n u rest h
  | dec neg i f => exact cell0_dec E typ md neg i f u rest h
  | date y m d => exact cell0_date E typ md y m d u rest h
  | time neg hh m s => exact cell0_time E typ md neg hh m s u rest h
  | datetime y mo d hh mi s => exact cell0_datetime E typ md y mo d hh mi s u rest h
  | timestamp sec => exact cell0_timestamp E typ md sec u rest h
  | time2 neg hh m s frac => exact cell0_time2 E typ md neg hh m s frac u rest h
  | datetime2 y mo d hh mi s frac => exact cell0_datetime2 E typ md y mo d hh mi s frac u rest h
  | timestamp2 sec frac => exact cell0_timestamp2 E typ md sec frac u rest h
  | str b => exact cell0_str E typ md b u rest h
  | raw b t => exact cell0_raw E typ md b t u rest h

/-- the uniform cell theorem at an arbitrary position -/
theorem cell_exact (E : Ext) (typ md : Nat) (u : Bool) (v : W.CellVal) (h : W.CellOK typ md u v) (pre rest : Bytes) :
    cellLength (pre ++ (W.cell typ md v ++ rest)) pre.length typ md = .ok (W.cell typ md v).length ∧
    cellBytes E (pre ++ (W.cell typ md v ++ rest)) pre.length typ md u = .ok (txt E md v, (W.cell typ md v).length) := by
  rw [cellLength_at, cellBytes_at]
  exact cell0 E typ md u v h rest

/-! ### images -/

theorem cellOK_typ_lt (typ md : Nat) (u : Bool) (v : W.CellVal) (h : W.CellOK typ md u v) : typ < 256 := by
  cases v <;> simp only [W.CellOK, W.intTypes, List.mem_cons, Prod.mk.injEq, List.mem_nil_iff, or_false] at h <;> omega

def cellsOf (cs : List (W.ColDef × Bool)) (vs : List (Option W.CellVal)) : Bytes :=
  (List.zip (cs.map (·.1)) vs).flatMap fun (c, v) => match v with | some x => W.cell c.typ c.md x | none => []

def ImgOK (cols : List (W.ColDef × Bool)) (vals : List (Option W.CellVal)) : Prop :=
  cols.length = vals.length ∧
  ∀ p ∈ List.zip cols vals, match p.2 with | some v => W.CellOK p.1.1.typ p.1.1.md p.1.2 v | none => True

theorem sel_nil {α} (xs : List α) : W.selectPresent [] xs = [] := by simp [W.selectPresent]
theorem sel_false {α} (ps : List Bool) (x : α) (xs : List α) :
    W.selectPresent (false :: ps) (x :: xs) = W.selectPresent ps xs := by simp [W.selectPresent]
theorem sel_true {α} (ps : List Bool) (x : α) (xs : List α) :
    W.selectPresent (true :: ps) (x :: xs) = x :: W.selectPresent ps xs := by simp [W.selectPresent]

theorem cellsOf_nil (vs : List (Option W.CellVal)) : cellsOf [] vs = [] := by simp [cellsOf]
theorem cellsOf_none (col : W.ColDef × Bool) (cs : List (W.ColDef × Bool)) (vs : List (Option W.CellVal)) :
    cellsOf (col :: cs) (none :: vs) = cellsOf cs vs := by simp [cellsOf]
theorem cellsOf_some (col : W.ColDef × Bool) (cs : List (W.ColDef × Bool)) (x : W.CellVal) (vs : List (Option W.CellVal)) :
    cellsOf (col :: cs) (some x :: vs) = W.cell col.1.typ col.1.md x ++ cellsOf cs vs := by simp [cellsOf]

theorem imgOK_cons (col : W.ColDef × Bool) (cs : List (W.ColDef × Bool)) (v : Option W.CellVal)
    (vs : List (Option W.CellVal)) (h : ImgOK (col :: cs) (v :: vs)) :
    (∀ x, v = some x → W.CellOK col.1.typ col.1.md col.2 x) ∧ ImgOK cs vs := by
  obtain ⟨hl, hall⟩ := h
  refine ⟨?_, by simpa using hl, ?_⟩
  · intro x hx; subst hx
    exact hall (col, some x) (by simp)
  · intro p hp
    exact hall p (by simp [hp])

theorem skip_gen (tm : TableMap) (pb nb : Bitmap) (rest : Bytes) :
    ∀ (cs : List (W.ColDef × Bool)) (ps : List Bool) (vs : List (Option W.CellVal)) (c vi : Nat) (pre : Bytes),
      ps.length = cs.length →
      ImgOK (W.selectPresent ps cs) vs →
      (∀ j b, ps[j]? = some b → pb.bit (c + j) = .ok b) →
      (∀ j col, cs[j]? = some col →
        tm.types.get (c + j) = .ok (UInt8.ofNat col.1.typ) ∧ tm.metadata[c + j]? = some col.1.md) →
      (∀ j v, vs[j]? = some v → nb.bit (vi + j) = .ok v.isNone) →
      skipImage (pre ++ (cellsOf (W.selectPresent ps cs) vs ++ rest)) tm pb nb cs.length c vi pre.length
        = .ok (pre.length + (cellsOf (W.selectPresent ps cs) vs).length) := by
  intro cs
  induction cs with
  | nil =>
    intro ps vs c vi pre hl hok hp ht hn
    simp [skipImage, W.selectPresent, cellsOf]
  | cons col cs ih =>
    intro ps vs c vi pre hl hok hp ht hn
    cases ps with
    | nil => simp at hl
    | cons p ps =>
      have hl' : ps.length = cs.length := by simpa using hl
      have hp0 := hp 0 p rfl
      have ht0 := ht 0 col rfl
      have hp' : ∀ j b, ps[j]? = some b → pb.bit (c + 1 + j) = .ok b := by
        intro j b hj; have := hp (j + 1) b (by simpa using hj); rwa [Nat.add_assoc, Nat.add_comm 1 j]
      have ht' : ∀ j col, cs[j]? = some col →
          tm.types.get (c + 1 + j) = .ok (UInt8.ofNat col.1.typ) ∧ tm.metadata[c + 1 + j]? = some col.1.md := by
        intro j b hj; have := ht (j + 1) b (by simpa using hj); rwa [Nat.add_assoc, Nat.add_comm 1 j]
      rw [Nat.add_zero] at hp0 ht0
      simp only [List.length_cons, skipImage, hp0, Res.ok_bind]
      cases p with
      | false =>
        rw [sel_false] at hok ⊢
        simp only [Bool.not_false, ↓reduceIte]
        exact ih ps vs (c + 1) vi pre hl' hok hp' ht' hn
      | true =>
        rw [sel_true] at hok ⊢
        simp only [Bool.not_true, Bool.false_eq_true, ↓reduceIte]
        cases vs with
        | nil => have := hok.1; simp at this
        | cons v vs =>
          obtain ⟨hv, hok'⟩ := imgOK_cons _ _ _ _ hok
          have hn0 := hn 0 v rfl
          rw [Nat.add_zero] at hn0
          have hn' : ∀ j v, vs[j]? = some v → nb.bit (vi + 1 + j) = .ok v.isNone := by
            intro j b hj; have := hn (j + 1) b (by simpa using hj); rwa [Nat.add_assoc, Nat.add_comm 1 j]
          simp only [hn0, Res.ok_bind]
          cases v with
          | none =>
            rw [cellsOf_none]
            simp only [Option.isNone_none, ↓reduceIte]
            exact ih ps vs (c + 1) (vi + 1) pre hl' hok' hp' ht' hn'
          | some x =>
            have hc := hv x rfl
            have hlt := cellOK_typ_lt _ _ _ _ hc
            rw [cellsOf_some]
            simp only [Option.isNone_some, Bool.false_eq_true, ↓reduceIte, ht0.1, ht0.2, Res.ok_bind,
              UInt8.toNat_ofNat', Nat.mod_eq_of_lt hlt, List.append_assoc]
            rw [(cell_exact ⟨fun _ => [], fun _ => [], fun _ => [], fun _ => 0⟩ col.1.typ col.1.md col.2 x hc pre _).1]
            simp only [Res.ok_bind]
            have := ih ps vs (c + 1) (vi + 1) (pre ++ W.cell col.1.typ col.1.md x) hl' hok' hp' ht' hn'
            simp only [List.append_assoc, List.length_append] at this
            rw [this, List.length_append, Nat.add_assoc]

theorem bit_written (bits : List Bool) (n j : Nat) (b : Bool) (h : bits[j]? = some b) :
    Bitmap.bit ⟨W.bitmapBytes bits, n⟩ j = .ok b := by
  obtain ⟨hj, rfl⟩ := List.getElem?_eq_some_iff.mp h
  exact C15.bitmap_bit bits j hj

theorem nulls_written (vals : List (Option W.CellVal)) (n vi j : Nat) (v : Option W.CellVal) (h : vals[j]? = some v)
    (hvi : vi = 0) : Bitmap.bit ⟨W.bitmapBytes (vals.map (·.isNone)), n⟩ (vi + j) = .ok v.isNone := by
  subst hvi; rw [Nat.zero_add]
  exact bit_written _ _ _ _ (by simp [h])

theorem image_skipped (tmTypes : Bytes) (tmMd : List Nat) (allCols : List (W.ColDef × Bool)) (present : List Bool)
    (hp : present.length = allCols.length)
    (htm : tmTypes = allCols.map (fun c => UInt8.ofNat c.1.typ) ∧ tmMd = allCols.map (fun c => c.1.md))
    (vals : List (Option W.CellVal)) (hok : ImgOK (W.selectPresent present allCols) vals) (pre rest : Bytes) :
    skipImage (pre ++ (cellsOf (W.selectPresent present allCols) vals ++ rest))
      { flags := 0, database := [], name := [], types := tmTypes, canBeNull := ⟨[], 0⟩, metadata := tmMd }
      ⟨W.bitmapBytes present, present.length⟩ ⟨W.bitmapBytes (vals.map (·.isNone)), vals.length⟩
      allCols.length 0 0 pre.length = .ok (pre.length + (cellsOf (W.selectPresent present allCols) vals).length) := by
  obtain ⟨rfl, rfl⟩ := htm
  apply skip_gen _ _ _ rest allCols present vals 0 0 pre hp hok
  · intro j b hj; rw [Nat.zero_add]; exact bit_written _ _ _ _ hj
  · intro j col hj
    rw [Nat.zero_add]
    simp [Bytes.get, hj]
  · intro j v hj; exact nulls_written _ _ _ _ _ hj rfl

/-- what the column loop must produce: per table column absent / NULL / the canonical text -/
def expectCols (E : Ext) : List (W.ColDef × Bool) → List Bool → List Bytes → List (Option W.CellVal) → List ColumnData
  | col :: cs, false :: ps, n :: ns, vs => ⟨n, col.1.typ, .absent⟩ :: expectCols E cs ps ns vs
  | col :: cs, true :: ps, n :: ns, none :: vs => ⟨n, col.1.typ, .null⟩ :: expectCols E cs ps ns vs
  | col :: cs, true :: ps, n :: ns, some x :: vs => ⟨n, col.1.typ, .value (txt E col.1.md x)⟩ :: expectCols E cs ps ns vs
  | _, _, _, _ => []

theorem rc_gen (E : Ext) (tm : TableMap) (ti : TableInfo) (pb nb : Bitmap) (rest : Bytes) :
    ∀ (cs : List (W.ColDef × Bool)) (ps : List Bool) (ns : List Bytes) (vs : List (Option W.CellVal)) (c vi : Nat)
      (pre : Bytes),
      ps.length = cs.length → ns.length = cs.length →
      ImgOK (W.selectPresent ps cs) vs →
      (∀ col ∈ cs, col.1.typ < 256) →
      (∀ j b, ps[j]? = some b → pb.bit (c + j) = .ok b) →
      (∀ j col, cs[j]? = some col →
        tm.types.get (c + j) = .ok (UInt8.ofNat col.1.typ) ∧ tm.metadata[c + j]? = some col.1.md) →
      (∀ j n col, ns[j]? = some n → cs[j]? = some col → ti.columns[c + j]? = some (n, col.2)) →
      (∀ j v, vs[j]? = some v → nb.bit (vi + j) = .ok v.isNone) →
      rowColumns E tm ti pb nb (pre ++ (cellsOf (W.selectPresent ps cs) vs ++ rest)) cs.length c vi pre.length
        = .ok (expectCols E cs ps ns vs) := by
  intro cs
  induction cs with
  | nil =>
    intro ps ns vs c vi pre hl hnl hok hty hp ht hti hn
    simp [rowColumns, expectCols]
  | cons col cs ih =>
    intro ps ns vs c vi pre hl hnl hok hty hp ht hti hn
    cases ps with
    | nil => simp at hl
    | cons p ps =>
    cases ns with
    | nil => simp at hnl
    | cons n ns =>
      have hl' : ps.length = cs.length := by simpa using hl
      have hnl' : ns.length = cs.length := by simpa using hnl
      have hty' : ∀ col ∈ cs, col.1.typ < 256 := fun x hx => hty x (List.mem_cons_of_mem _ hx)
      have hlt : col.1.typ < 256 := hty col (List.mem_cons_self)
      have hp0 := hp 0 p rfl
      have ht0 := ht 0 col rfl
      have hti0 := hti 0 n col rfl rfl
      have hp' : ∀ j b, ps[j]? = some b → pb.bit (c + 1 + j) = .ok b := by
        intro j b hj; have := hp (j + 1) b (by simpa using hj); rwa [Nat.add_assoc, Nat.add_comm 1 j]
      have ht' : ∀ j col, cs[j]? = some col →
          tm.types.get (c + 1 + j) = .ok (UInt8.ofNat col.1.typ) ∧ tm.metadata[c + 1 + j]? = some col.1.md := by
        intro j b hj; have := ht (j + 1) b (by simpa using hj); rwa [Nat.add_assoc, Nat.add_comm 1 j]
      have hti' : ∀ j n col, ns[j]? = some n → cs[j]? = some col → ti.columns[c + 1 + j]? = some (n, col.2) := by
        intro j a b hj hj'; have := hti (j + 1) a b (by simpa using hj) (by simpa using hj')
        rwa [Nat.add_assoc, Nat.add_comm 1 j]
      rw [Nat.add_zero] at hp0 ht0 hti0
      simp only [List.length_cons, rowColumns, hti0, ht0.1, hp0, Res.ok_bind, UInt8.toNat_ofNat',
        Nat.mod_eq_of_lt hlt]
      cases p with
      | false =>
        rw [sel_false] at hok ⊢
        simp only [Bool.not_false, ↓reduceIte]
        rw [ih ps ns vs (c + 1) vi pre hl' hnl' hok hty' hp' ht' hti' hn]
        simp [expectCols]
      | true =>
        rw [sel_true] at hok ⊢
        simp only [Bool.not_true, Bool.false_eq_true, ↓reduceIte]
        cases vs with
        | nil => have := hok.1; simp at this
        | cons v vs =>
          obtain ⟨hv, hok'⟩ := imgOK_cons _ _ _ _ hok
          have hn0 := hn 0 v rfl
          rw [Nat.add_zero] at hn0
          have hn' : ∀ j v, vs[j]? = some v → nb.bit (vi + 1 + j) = .ok v.isNone := by
            intro j b hj; have := hn (j + 1) b (by simpa using hj); rwa [Nat.add_assoc, Nat.add_comm 1 j]
          simp only [hn0, Res.ok_bind]
          cases v with
          | none =>
            rw [cellsOf_none]
            simp only [Option.isNone_none, ↓reduceIte]
            rw [ih ps ns vs (c + 1) (vi + 1) pre hl' hnl' hok' hty' hp' ht' hti' hn']
            simp [expectCols]
          | some x =>
            have hc := hv x rfl
            rw [cellsOf_some]
            simp only [Option.isNone_some, Bool.false_eq_true, ↓reduceIte, ht0.2, List.append_assoc]
            rw [(cell_exact E col.1.typ col.1.md col.2 x hc pre _).2]
            simp only [Res.ok_bind]
            have := ih ps ns vs (c + 1) (vi + 1) (pre ++ W.cell col.1.typ col.1.md x) hl' hnl' hok' hty' hp' ht' hti' hn'
            simp only [List.append_assoc, List.length_append] at this
            rw [this]
            simp [expectCols]

theorem expect_props (E : Ext) :
    ∀ (cs : List (W.ColDef × Bool)) (ps : List Bool) (ns : List Bytes) (vs : List (Option W.CellVal)),
      ps.length = cs.length → ns.length = cs.length → (W.selectPresent ps cs).length = vs.length →
      (expectCols E cs ps ns vs).length = cs.length ∧
      ∀ i (hi : i < cs.length), ∃ cd, (expectCols E cs ps ns vs)[i]? = some cd ∧ cd.field = ns[i]! ∧
        cd.typ = (cs[i]).1.typ ∧ (ps[i]! = false → cd.col = .absent) := by
  intro cs
  induction cs with
  | nil => intro ps ns vs _ _ _; simp [expectCols]
  | cons col cs ih =>
    intro ps ns vs hl hnl hs
    cases ps with
    | nil => simp at hl
    | cons p ps =>
    cases ns with
    | nil => simp at hnl
    | cons n ns =>
      have hl' : ps.length = cs.length := by simpa using hl
      have hnl' : ns.length = cs.length := by simpa using hnl
      cases p with
      | false =>
        rw [sel_false] at hs
        obtain ⟨h1, h2⟩ := ih ps ns vs hl' hnl' hs
        refine ⟨by simp [expectCols, h1], ?_⟩
        intro i hi
        cases i with
        | zero => exact ⟨⟨n, col.1.typ, .absent⟩, by simp [expectCols], by simp, by simp, by simp⟩
        | succ i =>
          obtain ⟨cd, a, b, c, d⟩ := h2 i (by simpa using hi)
          exact ⟨cd, by simpa [expectCols] using a, by simpa using b, by simpa using c, by simpa using d⟩
      | true =>
        rw [sel_true] at hs
        cases vs with
        | nil => simp at hs
        | cons v vs =>
          obtain ⟨h1, h2⟩ := ih ps ns vs hl' hnl' (by simpa using hs)
          cases v with
          | none =>
            refine ⟨by simp [expectCols, h1], ?_⟩
            intro i hi
            cases i with
            | zero => exact ⟨⟨n, col.1.typ, .null⟩, by simp [expectCols], by simp, by simp, by simp⟩
            | succ i =>
              obtain ⟨cd, a, b, c, d⟩ := h2 i (by simpa using hi)
              exact ⟨cd, by simpa [expectCols] using a, by simpa using b, by simpa using c, by simpa using d⟩
          | some x =>
            refine ⟨by simp [expectCols, h1], ?_⟩
            intro i hi
            cases i with
            | zero => exact ⟨⟨n, col.1.typ, .value (txt E col.1.md x)⟩, by simp [expectCols], by simp, by simp, by simp⟩
            | succ i =>
              obtain ⟨cd, a, b, c, d⟩ := h2 i (by simpa using hi)
              exact ⟨cd, by simpa [expectCols] using a, by simpa using b, by simpa using c, by simpa using d⟩

theorem image_consumed (E : Ext) (allCols : List (W.ColDef × Bool)) (names : List Bytes) (present : List Bool)
    (hp : present.length = allCols.length) (hn : names.length = allCols.length)
    (htyp : ∀ c ∈ allCols, c.1.typ < 256)
    (vals : List (Option W.CellVal)) (hok : ImgOK (W.selectPresent present allCols) vals) :
    rowColumns E
      { flags := 0, database := [], name := [], types := allCols.map (fun c => UInt8.ofNat c.1.typ),
        canBeNull := ⟨[], 0⟩, metadata := allCols.map (fun c => c.1.md) }
      { db := [], table := [], columns := List.zip names (allCols.map (·.2)) }
      ⟨W.bitmapBytes present, present.length⟩ ⟨W.bitmapBytes (vals.map (·.isNone)), vals.length⟩
      (cellsOf (W.selectPresent present allCols) vals) allCols.length 0 0 0
      = .ok (expectCols E allCols present names vals) := by
  have := rc_gen E
    { flags := 0, database := [], name := [], types := allCols.map (fun c => UInt8.ofNat c.1.typ),
      canBeNull := ⟨[], 0⟩, metadata := allCols.map (fun c => c.1.md) }
    { db := [], table := [], columns := List.zip names (allCols.map (·.2)) }
    ⟨W.bitmapBytes present, present.length⟩ ⟨W.bitmapBytes (vals.map (·.isNone)), vals.length⟩ []
    allCols present names vals 0 0 [] hp hn hok htyp
    (by intro j b hj; rw [Nat.zero_add]; exact bit_written _ _ _ _ hj)
    (by intro j col hj; rw [Nat.zero_add]; simp [Bytes.get, hj])
    (by intro j n col hj hj'; rw [Nat.zero_add]; simp [List.getElem?_zip_eq_some, hj, hj'])
    (by intro j v hj; exact nulls_written _ _ _ _ _ hj rfl)
  simpa using this

/-! ### whole rows events -/

theorem sel_map {α β} (f : α → β) : ∀ (ps : List Bool) (xs : List α),
    W.selectPresent ps (xs.map f) = (W.selectPresent ps xs).map f := by
  intro ps
  induction ps with
  | nil => intro xs; simp [W.selectPresent]
  | cons p ps ih =>
    intro xs
    cases xs with
    | nil => simp [W.selectPresent]
    | cons x xs =>
      cases p
      · rw [List.map_cons, sel_false, sel_false, ih]
      · rw [List.map_cons, sel_true, sel_true, ih, List.map_cons]

theorem sel_length {α} : ∀ (ps : List Bool) (xs : List α), ps.length = xs.length →
    (W.selectPresent ps xs).length = ps.count true := by
  intro ps
  induction ps with
  | nil => intro xs _; simp [W.selectPresent]
  | cons p ps ih =>
    intro xs h
    cases xs with
    | nil => simp at h
    | cons x xs =>
      have h' : ps.length = xs.length := by simpa using h
      cases p
      · rw [sel_false, ih xs h']; simp
      · rw [sel_true, List.length_cons, ih xs h']; simp

theorem bitCountAux_written (bits : List Bool) (n : Nat) : ∀ i, i ≤ bits.length →
    Bitmap.bitCountAux ⟨W.bitmapBytes bits, n⟩ i = .ok ((bits.take i).count true) := by
  intro i
  induction i with
  | zero => intro _; simp [Bitmap.bitCountAux]
  | succ i ih =>
    intro hi
    have hlt : i < bits.length := by omega
    have hb := bit_written bits n i bits[i] (List.getElem?_eq_getElem hlt)
    simp only [Bitmap.bitCountAux, ih (by omega), hb, Res.ok_bind, Res.pure_eq]
    rw [List.take_succ_eq_append_getElem hlt, List.count_append]
    cases bits[i] <;> simp

theorem bitCount_written (bits : List Bool) : Bitmap.bitCount ⟨W.bitmapBytes bits, bits.length⟩ = .ok (bits.count true) := by
  unfold Bitmap.bitCount
  rw [bitCountAux_written bits _ _ (Nat.le_refl _), List.take_length]

theorem newBitmap_written (pre rest : Bytes) (bits : List Bool) (cnt pos : Nat) (hc : bits.length = cnt)
    (hp : pos = pre.length) :
    newBitmap (pre ++ (W.bitmapBytes bits ++ rest)) pos cnt
      = .ok (⟨W.bitmapBytes bits, cnt⟩, pos + (W.bitmapBytes bits).length) := by
  subst hc hp
  have hl := C15.bitmapBytes_length bits
  simp only [newBitmap]
  rw [slice_mid' pre (W.bitmapBytes bits) rest _ _ rfl (by rw [hl])]
  simp [hl]

theorem imageBytes_eq (sel : List (W.ColDef × Bool)) (vals : List (Option W.CellVal)) :
    W.imageBytes (sel.map (·.1)) vals = W.bitmapBytes (vals.map (·.isNone)) ++ cellsOf sel vals := rfl

/-- the three steps of the rows loop on one image -/
theorem img_facts (allCols : List (W.ColDef × Bool)) (ps : List Bool) (hp : ps.length = allCols.length)
    (vals : List (Option W.CellVal)) (hok : ImgOK (W.selectPresent ps allCols) vals) (pre rest : Bytes) (num n : Nat)
    (hnum : num = vals.length) (data : Bytes)
    (hdata : data = pre ++ (W.imageBytes ((W.selectPresent ps allCols).map (·.1)) vals ++ rest)) :
    let tm : TableMap := { flags := 0, database := [], name := [], types := allCols.map (fun c => UInt8.ofNat c.1.typ),
                           canBeNull := ⟨[], 0⟩, metadata := allCols.map (fun c => c.1.md) }
    let bmB := W.bitmapBytes (vals.map (·.isNone))
    let cells := cellsOf (W.selectPresent ps allCols) vals
    newBitmap data pre.length num = .ok (⟨bmB, num⟩, pre.length + bmB.length) ∧
    skipImage data tm ⟨W.bitmapBytes ps, n⟩ ⟨bmB, num⟩ allCols.length 0 0 (pre.length + bmB.length)
      = .ok (pre.length + bmB.length + cells.length) ∧
    data.slice (pre.length + bmB.length) (pre.length + bmB.length + cells.length) = .ok cells ∧
    pre.length + bmB.length + cells.length
      = (pre ++ W.imageBytes ((W.selectPresent ps allCols).map (·.1)) vals).length := by
  intro tm bmB cells
  subst hdata
  rw [imageBytes_eq]
  refine ⟨?_, ?_, ?_, ?_⟩
  · rw [List.append_assoc]
    exact newBitmap_written pre _ _ num _ (by simp [hnum]) rfl
  · have := skip_gen tm ⟨W.bitmapBytes ps, n⟩ ⟨bmB, num⟩ rest allCols ps vals 0 0 (pre ++ bmB) hp hok
      (by intro j b hj; rw [Nat.zero_add]; exact bit_written _ _ _ _ hj)
      (by intro j col hj; rw [Nat.zero_add]; simp [tm, Bytes.get, hj])
      (by intro j v hj; exact nulls_written _ _ _ _ _ hj rfl)
    simpa only [List.append_assoc, List.length_append] using this
  · have := slice_mid (pre ++ bmB) cells rest
    simpa only [List.append_assoc, List.length_append] using this
  · simp only [List.length_append, Nat.add_assoc, bmB, cells]

abbrev RowV := List (Option W.CellVal) × List (Option W.CellVal)

def rowBytes (hi hd : Bool) (selB selA : List (W.ColDef × Bool)) (r : RowV) : Bytes :=
  (if hi then W.imageBytes (selB.map (·.1)) r.1 else []) ++ (if hd then W.imageBytes (selA.map (·.1)) r.2 else [])

def mkRow (hi hd : Bool) (selB selA : List (W.ColDef × Bool)) (numId numData : Nat) (r : RowV) : Row :=
  ⟨if hi then ⟨W.bitmapBytes (r.1.map (·.isNone)), numId⟩ else emptyBitmap,
   if hd then ⟨W.bitmapBytes (r.2.map (·.isNone)), numData⟩ else emptyBitmap,
   if hi then cellsOf selB r.1 else [], if hd then cellsOf selA r.2 else []⟩

theorem loop_gen (allCols : List (W.ColDef × Bool)) (pb pa : List Bool) (hpb : pb.length = allCols.length)
    (hpa : pa.length = allCols.length) (hi hd : Bool) (idCols dataCols : Bitmap) (numId numData : Nat)
    (hid : hi = true → idCols.data = W.bitmapBytes pb ∧ numId = (W.selectPresent pb allCols).length)
    (hdt : hd = true → dataCols.data = W.bitmapBytes pa ∧ numData = (W.selectPresent pa allCols).length) :
    ∀ (rows : List RowV),
      (∀ r ∈ rows, (hi = true → ImgOK (W.selectPresent pb allCols) r.1) ∧
                   (hd = true → ImgOK (W.selectPresent pa allCols) r.2)) →
      (∀ r ∈ rows, 0 < (rowBytes hi hd (W.selectPresent pb allCols) (W.selectPresent pa allCols) r).length) →
      ∀ (pre : Bytes) (fuel : Nat), rows.length < fuel →
      rowsLoop (pre ++ rows.flatMap (rowBytes hi hd (W.selectPresent pb allCols) (W.selectPresent pa allCols)))
        { flags := 0, database := [], name := [], types := allCols.map (fun c => UInt8.ofNat c.1.typ),
          canBeNull := ⟨[], 0⟩, metadata := allCols.map (fun c => c.1.md) }
        hi hd allCols.length idCols dataCols numId numData fuel pre.length
        = .ok (rows.map (mkRow hi hd (W.selectPresent pb allCols) (W.selectPresent pa allCols) numId numData)) := by
  intro rows
  induction rows with
  | nil =>
    intro _ _ pre fuel hf
    cases fuel with
    | zero => omega
    | succ fuel => simp [rowsLoop]
  | cons r rows ih =>
    intro hok hwide pre fuel hf
    cases fuel with
    | zero => omega
    | succ fuel =>
      have hok' := fun r hr => hok r (List.mem_cons_of_mem _ hr)
      have hwide' := fun r hr => hwide r (List.mem_cons_of_mem _ hr)
      have hokr := hok r List.mem_cons_self
      have hw := hwide r List.mem_cons_self
      have hlt : pre.length < (pre ++ (r :: rows).flatMap
          (rowBytes hi hd (W.selectPresent pb allCols) (W.selectPresent pa allCols))).length := by
        simp only [List.flatMap_cons, List.length_append]; omega
      rw [rowsLoop, if_pos hlt]
      obtain ⟨idb, idc⟩ := idCols
      obtain ⟨dtb, dtc⟩ := dataCols
      cases hi with
      | false =>
        cases hd with
        | false => simp [rowBytes] at hw
        | true =>
          obtain ⟨e1, e2⟩ := hdt rfl
          simp only at e1; subst e1
          have hokA := hokr.2 rfl
          have hD : pre ++ (r :: rows).flatMap (rowBytes false true (W.selectPresent pb allCols) (W.selectPresent pa allCols))
              = pre ++ (W.imageBytes ((W.selectPresent pa allCols).map (·.1)) r.2 ++
                rows.flatMap (rowBytes false true (W.selectPresent pb allCols) (W.selectPresent pa allCols))) := by
            simp [rowBytes]
          rw [hD]
          obtain ⟨f1, f2, f3, f4⟩ := img_facts allCols pa hpa r.2 hokA pre
            (rows.flatMap (rowBytes false true (W.selectPresent pb allCols) (W.selectPresent pa allCols)))
            numData dtc (by rw [e2]; exact hokA.1) _ rfl
          simp only [Bool.false_eq_true, ↓reduceIte, Res.pure_eq, Res.ok_bind, f1, f2, f3]
          rw [f4]
          have := ih hok' hwide' (pre ++ W.imageBytes ((W.selectPresent pa allCols).map (·.1)) r.2) fuel (by simpa using hf)
          simp only [List.append_assoc] at this
          simp only [this, Res.ok_bind, List.map_cons, mkRow, Bool.false_eq_true, ↓reduceIte]
      | true =>
        obtain ⟨e1, e2⟩ := hid rfl
        simp only at e1; subst e1
        have hokB := hokr.1 rfl
        cases hd with
        | false =>
          have hD : pre ++ (r :: rows).flatMap (rowBytes true false (W.selectPresent pb allCols) (W.selectPresent pa allCols))
              = pre ++ (W.imageBytes ((W.selectPresent pb allCols).map (·.1)) r.1 ++
                rows.flatMap (rowBytes true false (W.selectPresent pb allCols) (W.selectPresent pa allCols))) := by
            simp [rowBytes]
          rw [hD]
          obtain ⟨f1, f2, f3, f4⟩ := img_facts allCols pb hpb r.1 hokB pre
            (rows.flatMap (rowBytes true false (W.selectPresent pb allCols) (W.selectPresent pa allCols)))
            numId idc (by rw [e2]; exact hokB.1) _ rfl
          simp only [Bool.false_eq_true, ↓reduceIte, Res.pure_eq, Res.ok_bind, f1, f2, f3]
          rw [f4]
          have := ih hok' hwide' (pre ++ W.imageBytes ((W.selectPresent pb allCols).map (·.1)) r.1) fuel (by simpa using hf)
          simp only [List.append_assoc] at this
          simp only [this, Res.ok_bind, List.map_cons, mkRow, Bool.false_eq_true, ↓reduceIte]
        | true =>
          obtain ⟨g1, g2⟩ := hdt rfl
          simp only at g1; subst g1
          have hokA := hokr.2 rfl
          have hD : pre ++ (r :: rows).flatMap (rowBytes true true (W.selectPresent pb allCols) (W.selectPresent pa allCols))
              = pre ++ (W.imageBytes ((W.selectPresent pb allCols).map (·.1)) r.1 ++
                (W.imageBytes ((W.selectPresent pa allCols).map (·.1)) r.2 ++
                rows.flatMap (rowBytes true true (W.selectPresent pb allCols) (W.selectPresent pa allCols)))) := by
            simp [rowBytes]
          rw [hD]
          obtain ⟨f1, f2, f3, f4⟩ := img_facts allCols pb hpb r.1 hokB pre
            (W.imageBytes ((W.selectPresent pa allCols).map (·.1)) r.2 ++
              rows.flatMap (rowBytes true true (W.selectPresent pb allCols) (W.selectPresent pa allCols)))
            numId idc (by rw [e2]; exact hokB.1) _ rfl
          simp only [↓reduceIte, Res.pure_eq, Res.ok_bind, f1, f2, f3]
          rw [f4]
          obtain ⟨f1', f2', f3', f4'⟩ := img_facts allCols pa hpa r.2 hokA
            (pre ++ W.imageBytes ((W.selectPresent pb allCols).map (·.1)) r.1)
            (rows.flatMap (rowBytes true true (W.selectPresent pb allCols) (W.selectPresent pa allCols)))
            numData dtc (by rw [g2]; exact hokA.1) _ (List.append_assoc _ _ _).symm
          simp only [f1', f2', f3', Res.ok_bind]
          rw [f4']
          have := ih hok' hwide' ((pre ++ W.imageBytes ((W.selectPresent pb allCols).map (·.1)) r.1) ++
            W.imageBytes ((W.selectPresent pa allCols).map (·.1)) r.2) fuel (by simpa using hf)
          simp only [List.append_assoc] at this ⊢
          simp only [this, Res.ok_bind, List.map_cons, mkRow, ↓reduceIte]

/-- the header walk of `binlogEvent.Rows` followed by the rows loop, for the three Boolean shape parameters -/
theorem rows_walk (f : Format) (ev body : Bytes) (typ hs : Nat)
    (hT : evType ev = .ok typ) (hS : ev.sliceFrom f.headerLength = .ok body) (hH : f.headerSize typ = .ok hs)
    (hi hd v2 : Bool)
    (hhi : (typ = Facts.eUpdateRowsEventV1 ∨ typ = Facts.eUpdateRowsEventV2 ∨
            typ = Facts.eDeleteRowsEventV1 ∨ typ = Facts.eDeleteRowsEventV2) ↔ hi = true)
    (hhd : (typ = Facts.eWriteRowsEventV1 ∨ typ = Facts.eWriteRowsEventV2 ∨
            typ = Facts.eUpdateRowsEventV1 ∨ typ = Facts.eUpdateRowsEventV2) ↔ hd = true)
    (hv2 : (typ = Facts.eWriteRowsEventV2 ∨ typ = Facts.eUpdateRowsEventV2 ∨ typ = Facts.eDeleteRowsEventV2) ↔ v2 = true)
    (hor : hi = true ∨ hd = true)
    (idw id flags : Nat) (hpos : (if hs = 6 then 4 else 6) = idw) (hfl : flags < 65536)
    (extra : Bytes) (hex : extra.length < 65534)
    (allCols : List (W.ColDef × Bool)) (hne : allCols ≠ []) (hn : allCols.length < 2 ^ 31)
    (pb pa : List Bool) (hpb : pb.length = allCols.length) (hpa : pa.length = allCols.length)
    (rows : List RowV)
    (hok : ∀ r ∈ rows, (hi = true → ImgOK (W.selectPresent pb allCols) r.1) ∧
                       (hd = true → ImgOK (W.selectPresent pa allCols) r.2))
    (hwide : ∀ r ∈ rows, 0 < (rowBytes hi hd (W.selectPresent pb allCols) (W.selectPresent pa allCols) r).length)
    (hbody : body = ofLE idw id ++ (ofLE 2 flags ++ ((if v2 then ofLE 2 (2 + extra.length) ++ extra else []) ++
      (W.lenenc allCols.length ++ ((if hi then W.bitmapBytes pb else []) ++ ((if hd then W.bitmapBytes pa else []) ++
        rows.flatMap (rowBytes hi hd (W.selectPresent pb allCols) (W.selectPresent pa allCols)))))))) :
    M.rows f { flags := 0, database := [], name := [], types := allCols.map (fun c => UInt8.ofNat c.1.typ),
               canBeNull := ⟨[], 0⟩, metadata := allCols.map (fun c => c.1.md) } ev
      = .ok { flags := flags,
              identifyColumns := if hi then ⟨W.bitmapBytes pb, allCols.length⟩ else emptyBitmap,
              dataColumns := if hd then ⟨W.bitmapBytes pa, allCols.length⟩ else emptyBitmap,
              rows := rows.map (mkRow hi hd (W.selectPresent pb allCols) (W.selectPresent pa allCols)
                (if hi then (W.selectPresent pb allCols).length else 0)
                (if hd then (W.selectPresent pa allCols).length else 0)) } := by
  unfold M.rows
  simp only [hT, hS, hH, Res.ok_bind, hhi, hhd, hv2, Bool.decide_eq_true, hpos]
  -- flags
  have hflags : readLE body idw 2 = .ok flags := by
    rw [hbody, C15.readLE_at (ofLE idw id) _ idw 2 flags (by simp)]
    simp only [Nat.reducePow]; rw [Nat.mod_eq_of_lt hfl]
  simp only [hflags, Res.ok_bind]
  -- the prefix before the column count
  let P1 : Bytes := ofLE idw id ++ (ofLE 2 flags ++ (if v2 then ofLE 2 (2 + extra.length) ++ extra else []))
  let BB : Bytes := if hi then W.bitmapBytes pb else []
  let BA : Bytes := if hd then W.bitmapBytes pa else []
  let R : Bytes := rows.flatMap (rowBytes hi hd (W.selectPresent pb allCols) (W.selectPresent pa allCols))
  have hpos1 : (if v2 = true then (readLE body (idw + 2) 2 >>= fun edl => pure (idw + 2 + edl)) else pure (idw + 2))
      = Res.ok P1.length := by
    cases v2 with
    | false => simp [P1]
    | true =>
      have : body = (ofLE idw id ++ ofLE 2 flags) ++ (ofLE 2 (2 + extra.length) ++ (extra ++
        (W.lenenc allCols.length ++ (BB ++ (BA ++ R))))) := by simp [hbody, BB, BA, R]
      rw [if_pos rfl, this, C15.readLE_at _ _ (idw + 2) 2 (2 + extra.length) (by simp)]
      simp only [Nat.reducePow, Res.ok_bind, Res.pure_eq, P1, if_pos, List.length_append, ofLE_length]
      rw [Nat.mod_eq_of_lt (by omega)]
      congr 1; omega
  simp only [hpos1, Res.ok_bind]
  have hBBne : BB ++ (BA ++ R) ≠ [] := by
    have hpos : 0 < (allCols.length + 7) / 8 := by
      have : 0 < allCols.length := List.length_pos_iff.mpr hne
      omega
    intro h
    have h0 := congrArg List.length h
    simp only [List.length_append, List.length_nil, BB, BA] at h0
    rcases hor with h | h
    · rw [h, if_pos rfl, C15.bitmapBytes_length, hpb] at h0; omega
    · rw [h, if_pos rfl, C15.bitmapBytes_length, hpa] at h0; omega
  have hlen : readLenEncInt body P1.length
      = .ok (some (allCols.length, P1.length + (W.lenenc allCols.length).length)) := by
    have : body = P1 ++ (W.lenenc allCols.length ++ (BB ++ (BA ++ R))) := by simp [hbody, P1, BB, BA, R]
    rw [this]
    exact C15.lenenc_read' P1 _ allCols.length _ (by simp only [Nat.reducePow] at hn ⊢; omega) hBBne rfl
  have hmax : ¬ allCols.length > maxInt32 := by simp only [Nat.reducePow] at hn; unfold maxInt32; omega
  simp only [hlen, Res.ok_bind, hmax, ↓reduceIte]
  let P2 : Bytes := P1 ++ W.lenenc allCols.length
  have hP2 : P1.length + (W.lenenc allCols.length).length = P2.length := by simp [P2]
  rw [hP2]
  have hb2 : body = P2 ++ (BB ++ (BA ++ R)) := by simp [hbody, P2, P1, BB, BA, R]
  have hB : (if hi = true then
        (newBitmap body P2.length allCols.length >>= fun x => x.1.bitCount >>= fun n => pure (x.1, n, x.2))
      else pure (emptyBitmap, 0, P2.length))
      = Res.ok ((if hi then ⟨W.bitmapBytes pb, allCols.length⟩ else emptyBitmap : Bitmap),
          (if hi then (W.selectPresent pb allCols).length else 0), (P2 ++ BB).length) := by
    cases hi with
    | false => simp [BB]
    | true =>
      have : body = P2 ++ (W.bitmapBytes pb ++ (BA ++ R)) := by rw [hb2]; simp [BB]
      rw [if_pos rfl, this, newBitmap_written P2 _ pb _ _ hpb rfl]
      simp only [Res.ok_bind, Res.pure_eq, if_pos]
      have hc := bitCount_written pb
      rw [hpb] at hc
      rw [hc, sel_length pb allCols hpb]
      simp [BB]
  simp only [hB, Res.ok_bind]
  have hb3 : body = (P2 ++ BB) ++ (BA ++ R) := by rw [hb2]; simp
  have hA : (if hd = true then
        (newBitmap body (P2 ++ BB).length allCols.length >>= fun x => x.1.bitCount >>= fun n => pure (x.1, n, x.2))
      else pure (emptyBitmap, 0, (P2 ++ BB).length))
      = Res.ok ((if hd then ⟨W.bitmapBytes pa, allCols.length⟩ else emptyBitmap : Bitmap),
          (if hd then (W.selectPresent pa allCols).length else 0), ((P2 ++ BB) ++ BA).length) := by
    cases hd with
    | false => simp [BA]
    | true =>
      have : body = (P2 ++ BB) ++ (W.bitmapBytes pa ++ R) := by rw [hb3]; simp [BA]
      rw [if_pos rfl, this, newBitmap_written (P2 ++ BB) _ pa _ _ hpa rfl]
      simp only [Res.ok_bind, Res.pure_eq, if_pos]
      have hc := bitCount_written pa
      rw [hpa] at hc
      rw [hc, sel_length pa allCols hpa]
      simp [BA, Nat.add_assoc]
  simp only [hA, Res.ok_bind]
  have hb4 : body = ((P2 ++ BB) ++ BA) ++ R := by rw [hb3]; simp
  have hfuel : rows.length < body.length + 1 := by
    have h1 : rows.length ≤ R.length := by
      clear hb4 hb3 hA hB hb2 hlen hBBne hpos1 hflags hbody hok
      induction rows with
      | nil => simp
      | cons r rows ih =>
        have h0 := hwide r List.mem_cons_self
        have := ih (fun r hr => hwide r (List.mem_cons_of_mem _ hr))
        simp only [R, List.flatMap_cons, List.length_append, List.length_cons] at this ⊢
        omega
    have h2 : R.length ≤ body.length := by rw [hb4]; simp only [List.length_append]; omega
    omega
  have hloop := loop_gen allCols pb pa hpb hpa hi hd
    (if hi then ⟨W.bitmapBytes pb, allCols.length⟩ else emptyBitmap)
    (if hd then ⟨W.bitmapBytes pa, allCols.length⟩ else emptyBitmap)
    (if hi then (W.selectPresent pb allCols).length else 0)
    (if hd then (W.selectPresent pa allCols).length else 0)
    (by intro h; simp [h]) (by intro h; simp [h]) rows hok hwide ((P2 ++ BB) ++ BA) (body.length + 1) hfuel
  rw [← hb4] at hloop
  simp only [hloop, Res.ok_bind, Res.pure_eq]

theorem rowsBody_eq (k : W.RowKind) (v2 : Bool) (idw id flags : Nat) (extra : Bytes) (allCols : List (W.ColDef × Bool))
    (pb pa : List Bool) (rows : List RowV) :
    W.rowsBody k v2 idw id flags extra (allCols.map (·.1)) pb pa rows
      = ofLE idw id ++ (ofLE 2 flags ++ ((if v2 then ofLE 2 (2 + extra.length) ++ extra else []) ++
        (W.lenenc allCols.length ++ ((if (k != .write) then W.bitmapBytes pb else []) ++
          ((if (k != .delete) then W.bitmapBytes pa else []) ++
            rows.flatMap (rowBytes (k != .write) (k != .delete) (W.selectPresent pb allCols)
              (W.selectPresent pa allCols))))))) := by
  unfold W.rowsBody
  simp only [List.append_assoc, List.length_map, sel_map]
  rfl

theorem rows_roundtrip (f : Format) (hf : f.headerLength = 19) (hdr : Bytes) (hh : hdr.length = 19)
    (k : W.RowKind) (v2 : Bool) (idw id flags : Nat) (hidw : idw = 4 ∨ idw = 6)
    (h4 : hdr[4]? = some (UInt8.ofNat (W.rowsEventType k v2)))
    (hhs : f.headerSize (W.rowsEventType k v2) = .ok (if idw = 4 then 6 else if v2 then 10 else 8))
    (hfl : flags < 65536) (extra : Bytes) (hex : extra.length < 65534)
    (cols : List (W.ColDef × Bool)) (hne : cols ≠ []) (hn : cols.length < 2 ^ 31)
    (pb pa : List Bool) (hpb : pb.length = cols.length) (hpa : pa.length = cols.length)
    (rows : List RowV)
    (hrows : ∀ r ∈ rows, (k ≠ .write → ImgOK (W.selectPresent pb cols) r.1) ∧ (k ≠ .delete → ImgOK (W.selectPresent pa cols) r.2))
    (hwide : ∀ r ∈ rows, 0 < ((if k ≠ .write then W.imageBytes ((W.selectPresent pb cols).map (·.1)) r.1 else []) ++
                              (if k ≠ .delete then W.imageBytes ((W.selectPresent pa cols).map (·.1)) r.2 else [])).length) :
    ∃ rs, M.rows f { flags := 0, database := [], name := [], types := cols.map (fun c => UInt8.ofNat c.1.typ),
                     canBeNull := ⟨[], 0⟩, metadata := cols.map (fun c => c.1.md) }
            (hdr ++ W.rowsBody k v2 idw id flags extra (cols.map (·.1)) pb pa rows) = .ok rs ∧
      rs.flags = flags ∧ rs.rows.length = rows.length ∧
      (k ≠ .write → rs.identifyColumns = ⟨W.bitmapBytes pb, cols.length⟩) ∧
      (k ≠ .delete → rs.dataColumns = ⟨W.bitmapBytes pa, cols.length⟩) ∧
      ∀ i (hi : i < rows.length), ∃ r, rs.rows[i]? = some r ∧
        (k ≠ .write → (r.nullIdentify.data ++ r.identify) = W.imageBytes ((W.selectPresent pb cols).map (·.1)) (rows[i]).1) ∧
        (k ≠ .delete → (r.nullData.data ++ r.data) = W.imageBytes ((W.selectPresent pa cols).map (·.1)) (rows[i]).2) := by
  have hlt : W.rowsEventType k v2 < 256 := by cases k <;> cases v2 <;> decide
  have hT : evType (hdr ++ W.rowsBody k v2 idw id flags extra (cols.map (·.1)) pb pa rows)
      = .ok (W.rowsEventType k v2) := by
    unfold evType Bytes.get
    rw [List.getElem?_append_left (by omega), h4]
    simp only [Res.ok_bind, Res.pure_eq, UInt8.toNat_ofNat', Nat.mod_eq_of_lt hlt]
  have hS : (hdr ++ W.rowsBody k v2 idw id flags extra (cols.map (·.1)) pb pa rows).sliceFrom f.headerLength
      = .ok (W.rowsBody k v2 idw id flags extra (cols.map (·.1)) pb pa rows) := by
    rw [hf]; exact C15.sliceFrom_app hdr _ 19 hh.symm
  have hpos : (if (if idw = 4 then 6 else if v2 then 10 else 8) = 6 then 4 else 6) = idw := by
    rcases hidw with rfl | rfl <;> cases v2 <;> simp
  have hkw : ((k != .write) = true) ↔ k ≠ .write := by cases k <;> decide
  have hkd : ((k != .delete) = true) ↔ k ≠ .delete := by cases k <;> decide
  have key := rows_walk f _ _ _ _ hT hS hhs (k != .write) (k != .delete) v2
    (by cases k <;> cases v2 <;> decide) (by cases k <;> cases v2 <;> decide) (by cases k <;> cases v2 <;> decide)
    (by cases k <;> decide) idw id flags hpos hfl extra hex cols hne hn pb pa hpb hpa rows
    (fun r hr => ⟨fun h => (hrows r hr).1 (hkw.mp h), fun h => (hrows r hr).2 (hkd.mp h)⟩)
    (by
      intro r hr
      have := hwide r hr
      simpa only [rowBytes, hkw, hkd] using this)
    (rowsBody_eq k v2 idw id flags extra cols pb pa rows)
  refine ⟨_, key, rfl, by simp, ?_, ?_, ?_⟩
  · intro h; simp only [hkw.mpr h, if_pos]
  · intro h; simp only [hkd.mpr h, if_pos]
  · intro i hi
    refine ⟨mkRow (k != .write) (k != .delete) (W.selectPresent pb cols) (W.selectPresent pa cols)
        (if (k != .write) = true then (W.selectPresent pb cols).length else 0)
        (if (k != .delete) = true then (W.selectPresent pa cols).length else 0) rows[i],
      by simp only [List.getElem?_map, List.getElem?_eq_getElem hi, Option.map_some], ?_, ?_⟩
    · intro h; simp only [mkRow, hkw.mpr h, if_pos]; rfl
    · intro h; simp only [mkRow, hkd.mpr h, if_pos]; rfl

end C09R
end GV
