import GV.Model.Rows
import GV.Spec.CellWF
import GV.Lemmas.Dec
import GV.Lemmas.C09
import GV.Lemmas.C10
import GV.Lemmas.C11
import GV.Lemmas.C12
import GV.Lemmas.C13
import GV.Lemmas.C15
import GV.Props.C09
import GV.Props.C10
import GV.Props.C11
import GV.Props.C12
import GV.Props.C13
import GV.Props.C15
/- helper lemmas for GV/Props/C09b.lean -/
namespace GV
namespace C09R
open Bytes M

/-! ### position-shift lemmas: a prefix in front of the buffer shifts every access uniformly -/

theorem get_shift (pre data : Bytes) (k : Nat) : Bytes.get (pre ++ data) (pre.length + k) = Bytes.get data k := by
  simp [Bytes.get, List.getElem?_append_right]

theorem slice_shift (pre data : Bytes) (a b : Nat) :
    Bytes.slice (pre ++ data) (pre.length + a) (pre.length + b) = Bytes.slice data a b := by
  unfold Bytes.slice
  have e1 : (pre.length + a ≤ pre.length + b ∧ pre.length + b ≤ (pre ++ data).length) ↔ (a ≤ b ∧ b ≤ data.length) := by
    rw [List.length_append]; omega
  have e2 : pre.length + b - (pre.length + a) = b - a := by omega
  have e3 : List.drop (pre.length + a) (pre ++ data) = List.drop a data := by
    rw [List.drop_append]; simp
  simp only [e1, e2, e3]

theorem readLE_shift (pre data : Bytes) (p w : Nat) : readLE (pre ++ data) (pre.length + p) w = readLE data p w := by
  unfold readLE; rw [Nat.add_assoc, slice_shift]

theorem readBE_shift (pre data : Bytes) (p w : Nat) : readBE (pre ++ data) (pre.length + p) w = readBE data p w := by
  unfold readBE; rw [Nat.add_assoc, slice_shift]

theorem leIdx_shift (pre data : Bytes) (p w : Nat) : leIdx (pre ++ data) (pre.length + p) w = leIdx data p w := by
  induction w generalizing p with
  | zero => rfl
  | succ w ih => simp only [leIdx, get_shift, Nat.add_assoc, ih]

theorem beIdx_shift (pre data : Bytes) (p w : Nat) : beIdx (pre ++ data) (pre.length + p) w = beIdx data p w := by
  induction w generalizing p with
  | zero => rfl
  | succ w ih => simp only [beIdx, get_shift, Nat.add_assoc, ih]

theorem blobLen_shift (pre data : Bytes) (p md : Nat) : blobLen (pre ++ data) (pre.length + p) md = blobLen data p md := by
  unfold blobLen; rw [leIdx_shift]

theorem fracSuffix_shift (pre data : Bytes) (p md : Nat) :
    fracSuffix (pre ++ data) (pre.length + p) md = fracSuffix data p md := by
  unfold fracSuffix; simp only [beIdx_shift]

theorem decimalBytes_shift (pre data : Bytes) (p md : Nat) :
    decimalBytes (pre ++ data) (pre.length + p) md = decimalBytes data p md := by
  unfold decimalBytes; simp only [Nat.add_assoc, slice_shift]

theorem setMask_shift (pre data : Bytes) (p l i : Nat) :
    cellBytes.setMask (pre ++ data) (pre.length + p) l i = cellBytes.setMask data p l i := by
  induction l generalizing i with
  | zero => rfl
  | succ l ih => simp only [cellBytes.setMask, get_shift, Nat.add_assoc, ih]

theorem cellLength_shift (pre data : Bytes) (p typ md : Nat) :
    cellLength (pre ++ data) (pre.length + p) typ md = cellLength data p typ md := by
  unfold cellLength
  simp only [leIdx_shift, get_shift, blobLen_shift]

theorem cellBytes_shift (E : Ext) (pre data : Bytes) (p typ md : Nat) (u : Bool) :
    cellBytes E (pre ++ data) (pre.length + p) typ md u = cellBytes E data p typ md u := by
  unfold cellBytes
  simp only [Nat.add_assoc, get_shift, slice_shift, readLE_shift, readBE_shift, leIdx_shift, beIdx_shift,
    blobLen_shift, fracSuffix_shift, decimalBytes_shift, setMask_shift]

theorem cellLength_at (pre data : Bytes) (typ md : Nat) :
    cellLength (pre ++ data) pre.length typ md = cellLength data 0 typ md := by
  simpa using cellLength_shift pre data 0 typ md

theorem cellBytes_at (E : Ext) (pre data : Bytes) (typ md : Nat) (u : Bool) :
    cellBytes E (pre ++ data) pre.length typ md u = cellBytes E data 0 typ md u := by
  simpa using cellBytes_shift E pre data 0 typ md u

/-! ### the uniform cell theorem at position 0, assembled from C10–C13 -/

theorem cl_fixed (data : Bytes) (pos typ md n : Nat) (h : lookup Facts.cellLengthFixed typ = some n) :
    cellLength data pos typ md = .ok n := C09.cl_some data pos typ md n h

abbrev txt (E : Ext) (md : Nat) (v : W.CellVal) : Bytes :=
  W.text md (fun sec => printTimestamp E sec) E.fmtFloat32 E.fmtFloat64 v

theorem cell0_int (E : Ext) (typ md w : Nat) (v : Int) (rest : Bytes) (h : W.CellOK typ md false (.int w v)) :
    cellLength (W.cell typ md (.int w v) ++ rest) 0 typ md = .ok (W.cell typ md (.int w v)).length ∧
    cellBytes E (W.cell typ md (.int w v) ++ rest) 0 typ md false
      = .ok (txt E md (.int w v), (W.cell typ md (.int w v)).length) := by
  obtain ⟨hw, _, hv⟩ := h
  have hb := Props.C10.C10_int_signed E w typ md hw v hv rest
  have hl : (W.cell typ md (.int w v)).length = w := by simp [W.cell]
  refine ⟨?_, by rw [hb, hl]; rfl⟩
  rw [hl]
  simp [W.intTypes] at hw
  rcases hw with ⟨rfl, rfl⟩ | ⟨rfl, rfl⟩ | ⟨rfl, rfl⟩ | ⟨rfl, rfl⟩ | ⟨rfl, rfl⟩ <;> exact cl_fixed _ _ _ _ _ (by decide)

theorem cell0_uint (E : Ext) (typ md w n : Nat) (rest : Bytes) (h : W.CellOK typ md true (.uint w n)) :
    cellLength (W.cell typ md (.uint w n) ++ rest) 0 typ md = .ok (W.cell typ md (.uint w n)).length ∧
    cellBytes E (W.cell typ md (.uint w n) ++ rest) 0 typ md true
      = .ok (txt E md (.uint w n), (W.cell typ md (.uint w n)).length) := by
  obtain ⟨hw, _, hv⟩ := h
  have hb := Props.C10.C10_int_unsigned E w typ md hw n hv rest
  have hl : (W.cell typ md (.uint w n)).length = w := by simp [W.cell]
  refine ⟨?_, by rw [hb, hl]; rfl⟩
  rw [hl]
  simp [W.intTypes] at hw
  rcases hw with ⟨rfl, rfl⟩ | ⟨rfl, rfl⟩ | ⟨rfl, rfl⟩ | ⟨rfl, rfl⟩ | ⟨rfl, rfl⟩ <;> exact cl_fixed _ _ _ _ _ (by decide)

theorem cell0_f32 (E : Ext) (typ md b : Nat) (u : Bool) (rest : Bytes) (h : W.CellOK typ md u (.f32 b)) :
    cellLength (W.cell typ md (.f32 b) ++ rest) 0 typ md = .ok (W.cell typ md (.f32 b)).length ∧
    cellBytes E (W.cell typ md (.f32 b) ++ rest) 0 typ md u
      = .ok (txt E md (.f32 b), (W.cell typ md (.f32 b)).length) := by
  obtain ⟨rfl, hb⟩ := h
  have hl : (W.cell 4 md (.f32 b)).length = 4 := by simp [W.cell]
  rw [hl]
  exact ⟨cl_fixed _ _ _ _ _ (by decide), (Props.C10.C10_float_partial E md u rest).1 b hb⟩

theorem cell0_f64 (E : Ext) (typ md b : Nat) (u : Bool) (rest : Bytes) (h : W.CellOK typ md u (.f64 b)) :
    cellLength (W.cell typ md (.f64 b) ++ rest) 0 typ md = .ok (W.cell typ md (.f64 b)).length ∧
    cellBytes E (W.cell typ md (.f64 b) ++ rest) 0 typ md u
      = .ok (txt E md (.f64 b), (W.cell typ md (.f64 b)).length) := by
  obtain ⟨rfl, hb⟩ := h
  have hl : (W.cell 5 md (.f64 b)).length = 8 := by simp [W.cell]
  rw [hl]
  exact ⟨cl_fixed _ _ _ _ _ (by decide), (Props.C10.C10_float_partial E md u rest).2 b hb⟩

theorem cell0_year (E : Ext) (typ md b : Nat) (u : Bool) (rest : Bytes) (h : W.CellOK typ md u (.year b)) :
    cellLength (W.cell typ md (.year b) ++ rest) 0 typ md = .ok (W.cell typ md (.year b)).length ∧
    cellBytes E (W.cell typ md (.year b) ++ rest) 0 typ md u
      = .ok (txt E md (.year b), (W.cell typ md (.year b)).length) := by
  obtain ⟨rfl, hb⟩ := h
  have hl : (W.cell 13 md (.year b)).length = 1 := by simp [W.cell]
  rw [hl]
  exact ⟨cl_fixed _ _ _ _ _ (by decide), Props.C10.C10_year E md b hb u rest⟩

theorem cell0_bit (E : Ext) (typ md : Nat) (bs : Bytes) (u : Bool) (rest : Bytes) (h : W.CellOK typ md u (.bit bs)) :
    cellLength (W.cell typ md (.bit bs) ++ rest) 0 typ md = .ok (W.cell typ md (.bit bs)).length ∧
    cellBytes E (W.cell typ md (.bit bs) ++ rest) 0 typ md u
      = .ok (txt E md (.bit bs), (W.cell typ md (.bit bs)).length) := by
  have hl : (W.cell typ md (.bit bs)).length = bs.length := rfl
  rw [hl]
  rcases h with ⟨rfl, nbits, h1, h2, rfl, hlen⟩ | ⟨rfl, hmd, hlen⟩
  · rw [hlen]
    refine ⟨?_, Props.C10.C10_bit E nbits ⟨h1, h2⟩ bs hlen u rest⟩
    have hmd : u16 (u16 ((nbits / 8 * 256 + nbits % 8) / 256 * 8) + (nbits / 8 * 256 + nbits % 8) % 256) = nbits := by
      unfold u16; omega
    rw [C09.cl_none _ _ _ _ (by decide)]
    simp only [Nat.reduceEqDiff, or_self, ↓reduceIte, hmd]
  · rw [hlen]
    refine ⟨?_, Props.C10.C10_set_raw E md hmd bs hlen u rest⟩
    rw [C09.cl_none _ _ _ _ (by decide)]
    simp only [Nat.reduceEqDiff, or_self, or_true, ↓reduceIte, Nat.mod_eq_of_lt hmd]

theorem cell0_enum (E : Ext) (typ md w n : Nat) (u : Bool) (rest : Bytes) (h : W.CellOK typ md u (.enum w n)) :
    cellLength (W.cell typ md (.enum w n) ++ rest) 0 typ md = .ok (W.cell typ md (.enum w n)).length ∧
    cellBytes E (W.cell typ md (.enum w n) ++ rest) 0 typ md u
      = .ok (txt E md (.enum w n), (W.cell typ md (.enum w n)).length) := by
  have hl : (W.cell typ md (.enum w n)).length = w := by simp [W.cell]
  rw [hl]
  obtain ⟨ht, hw, hn⟩ := h
  have hb := Props.C10.C10_enum E w n hw hn u rest
  rcases ht with ⟨rfl, rfl⟩ | ⟨rfl, rfl⟩
  · refine ⟨?_, hb.1⟩
    rw [C09.cl_none _ _ _ _ (by decide)]
    have : md % 256 = md := by omega
    simp only [Nat.reduceEqDiff, or_self, true_or, ↓reduceIte, this]
  · refine ⟨?_, hb.2⟩
    rw [C09.cl_none _ _ _ _ (by decide)]
    have h1 : (247 * 256 + w) / 256 = 247 := by omega
    have h2 : (247 * 256 + w) % 256 = w := by omega
    simp only [Nat.reduceEqDiff, or_self, true_or, ↓reduceIte, h1, h2]

theorem cell0_set (E : Ext) (typ md w n : Nat) (u : Bool) (rest : Bytes) (h : W.CellOK typ md u (.set w n)) :
    cellLength (W.cell typ md (.set w n) ++ rest) 0 typ md = .ok (W.cell typ md (.set w n)).length ∧
    cellBytes E (W.cell typ md (.set w n) ++ rest) 0 typ md u
      = .ok (txt E md (.set w n), (W.cell typ md (.set w n)).length) := by
  have hl : (W.cell typ md (.set w n)).length = w := by simp [W.cell]
  rw [hl]
  obtain ⟨rfl, rfl, h1, h8, hn⟩ := h
  refine ⟨?_, Props.C10.C10_set E w n ⟨h1, h8⟩ hn u rest⟩
  rw [C09.cl_none _ _ _ _ (by decide)]
  have h1 : (248 * 256 + w) / 256 = 248 := by omega
  have h2 : (248 * 256 + w) % 256 = w := by omega
  simp only [Nat.reduceEqDiff, or_self, or_true, ↓reduceIte, h1, h2]

theorem cell0_dec (E : Ext) (typ md : Nat) (neg : Bool) (i f : List Nat) (u : Bool) (rest : Bytes)
    (h : W.CellOK typ md u (.dec neg i f)) :
    cellLength (W.cell typ md (.dec neg i f) ++ rest) 0 typ md = .ok (W.cell typ md (.dec neg i f)).length ∧
    cellBytes E (W.cell typ md (.dec neg i f) ++ rest) 0 typ md u
      = .ok (txt E md (.dec neg i f), (W.cell typ md (.dec neg i f)).length) := by
  obtain ⟨rfl, p, s, rfl, hp1, hp2, hs1, hs2, hi, hf, hid, hfd⟩ := h
  refine ⟨Props.C11.C11_length p s ⟨hp1, hp2⟩ ⟨hs1, hs2⟩ neg i f ⟨hi, hf, hid, hfd⟩ _ _, ?_⟩
  rw [C11.cellBytes_246, txt, C11.text_dec]
  exact C11.decimalBytes_enc p s ⟨hp1, hp2⟩ ⟨hs1, hs2⟩ neg i f hi hf hid hfd rest

theorem cell0_date (E : Ext) (typ md y m d : Nat) (u : Bool) (rest : Bytes) (h : W.CellOK typ md u (.date y m d)) :
    cellLength (W.cell typ md (.date y m d) ++ rest) 0 typ md = .ok (W.cell typ md (.date y m d)).length ∧
    cellBytes E (W.cell typ md (.date y m d) ++ rest) 0 typ md u
      = .ok (txt E md (.date y m d), (W.cell typ md (.date y m d)).length) := by
  have hl : (W.cell typ md (.date y m d)).length = 3 := by simp [W.cell]
  rw [hl]
  obtain ⟨ht, hy, hm, hd⟩ := h
  refine ⟨?_, Props.C12.C12_date E typ md y m d ht hy hm hd u rest _ _ _⟩
  rcases ht with rfl | rfl <;> exact cl_fixed _ _ _ _ _ (by decide)

theorem cell0_time (E : Ext) (typ md : Nat) (neg : Bool) (hh m s : Nat) (u : Bool) (rest : Bytes)
    (h : W.CellOK typ md u (.time neg hh m s)) :
    cellLength (W.cell typ md (.time neg hh m s) ++ rest) 0 typ md = .ok (W.cell typ md (.time neg hh m s)).length ∧
    cellBytes E (W.cell typ md (.time neg hh m s) ++ rest) 0 typ md u
      = .ok (txt E md (.time neg hh m s), (W.cell typ md (.time neg hh m s)).length) := by
  have hl : (W.cell typ md (.time neg hh m s)).length = 3 := by simp [W.cell]
  rw [hl]
  obtain ⟨rfl, h1, h2, h3, hz⟩ := h
  exact ⟨cl_fixed _ _ _ _ _ (by decide), Props.C12.C12_time_old E md hh m s neg h1 h2 h3 hz u rest _ _ _⟩

theorem cell0_datetime (E : Ext) (typ md y mo d hh mi s : Nat) (u : Bool) (rest : Bytes)
    (h : W.CellOK typ md u (.datetime y mo d hh mi s)) :
    cellLength (W.cell typ md (.datetime y mo d hh mi s) ++ rest) 0 typ md
      = .ok (W.cell typ md (.datetime y mo d hh mi s)).length ∧
    cellBytes E (W.cell typ md (.datetime y mo d hh mi s) ++ rest) 0 typ md u
      = .ok (txt E md (.datetime y mo d hh mi s), (W.cell typ md (.datetime y mo d hh mi s)).length) := by
  have hl : (W.cell typ md (.datetime y mo d hh mi s)).length = 8 := by simp [W.cell]
  rw [hl]
  obtain ⟨rfl, h1, h2, h3, h4, h5, h6⟩ := h
  exact ⟨cl_fixed _ _ _ _ _ (by decide), Props.C12.C12_datetime_old E md y mo d hh mi s h1 h2 h3 h4 h5 h6 u rest _ _ _⟩

theorem ts_text (E : Ext) (sec : Nat) :
    (if sec = 0 then asc "0000-00-00 00:00:00" else printTimestamp E sec) = printTimestamp E sec := by
  split
  · rename_i h; subst h; simp [printTimestamp]
  · rfl

theorem cell0_timestamp (E : Ext) (typ md sec : Nat) (u : Bool) (rest : Bytes)
    (h : W.CellOK typ md u (.timestamp sec)) :
    cellLength (W.cell typ md (.timestamp sec) ++ rest) 0 typ md = .ok (W.cell typ md (.timestamp sec)).length ∧
    cellBytes E (W.cell typ md (.timestamp sec) ++ rest) 0 typ md u
      = .ok (txt E md (.timestamp sec), (W.cell typ md (.timestamp sec)).length) := by
  have hl : (W.cell typ md (.timestamp sec)).length = 4 := by simp [W.cell]
  rw [hl]
  obtain ⟨rfl, h1⟩ := h
  refine ⟨cl_fixed _ _ _ _ _ (by decide), ?_⟩
  rw [(Props.C12.C12_timestamp_partial E md sec h1 u rest).1]
  simp only [txt, W.text, ts_text]

theorem cell0_time2 (E : Ext) (typ md : Nat) (neg : Bool) (hh m s frac : Nat) (u : Bool) (rest : Bytes)
    (h : W.CellOK typ md u (.time2 neg hh m s frac)) :
    cellLength (W.cell typ md (.time2 neg hh m s frac) ++ rest) 0 typ md
      = .ok (W.cell typ md (.time2 neg hh m s frac)).length ∧
    cellBytes E (W.cell typ md (.time2 neg hh m s frac) ++ rest) 0 typ md u
      = .ok (txt E md (.time2 neg hh m s frac), (W.cell typ md (.time2 neg hh m s frac)).length) := by
  have hl : (W.cell typ md (.time2 neg hh m s frac)).length = 3 + (md + 1) / 2 := by simp [W.cell, W.fracBytes]
  rw [hl]
  obtain ⟨rfl, hf, h1, h2, h3, hfr, hz⟩ := h
  refine ⟨?_, Props.C12.C12_time2 E md hh m s frac neg hf h1 h2 h3 hfr hz u rest _ _ _⟩
  rw [C09.cl_none _ _ _ _ (by decide)]
  simp only [Nat.reduceEqDiff, or_self, ↓reduceIte]

theorem cell0_datetime2 (E : Ext) (typ md y mo d hh mi s frac : Nat) (u : Bool) (rest : Bytes)
    (h : W.CellOK typ md u (.datetime2 y mo d hh mi s frac)) :
    cellLength (W.cell typ md (.datetime2 y mo d hh mi s frac) ++ rest) 0 typ md
      = .ok (W.cell typ md (.datetime2 y mo d hh mi s frac)).length ∧
    cellBytes E (W.cell typ md (.datetime2 y mo d hh mi s frac) ++ rest) 0 typ md u
      = .ok (txt E md (.datetime2 y mo d hh mi s frac), (W.cell typ md (.datetime2 y mo d hh mi s frac)).length) := by
  have hl : (W.cell typ md (.datetime2 y mo d hh mi s frac)).length = 5 + (md + 1) / 2 := by
    simp [W.cell, W.fracBytes]
  rw [hl]
  obtain ⟨rfl, hf, h1, h2, h3, h4, h5, h6, hfr⟩ := h
  refine ⟨?_, Props.C12.C12_datetime2 E md y mo d hh mi s frac hf h1 h2 h3 h4 h5 h6 hfr u rest _ _ _⟩
  rw [C09.cl_none _ _ _ _ (by decide)]
  simp only [Nat.reduceEqDiff, or_self, ↓reduceIte]

theorem cell0_timestamp2 (E : Ext) (typ md sec frac : Nat) (u : Bool) (rest : Bytes)
    (h : W.CellOK typ md u (.timestamp2 sec frac)) :
    cellLength (W.cell typ md (.timestamp2 sec frac) ++ rest) 0 typ md
      = .ok (W.cell typ md (.timestamp2 sec frac)).length ∧
    cellBytes E (W.cell typ md (.timestamp2 sec frac) ++ rest) 0 typ md u
      = .ok (txt E md (.timestamp2 sec frac), (W.cell typ md (.timestamp2 sec frac)).length) := by
  have hl : (W.cell typ md (.timestamp2 sec frac)).length = 4 + (md + 1) / 2 := by simp [W.cell, W.fracBytes]
  rw [hl]
  obtain ⟨rfl, hf, h1, hfr⟩ := h
  refine ⟨?_, ?_⟩
  · rw [C09.cl_none _ _ _ _ (by decide)]
    simp only [Nat.reduceEqDiff, or_self, ↓reduceIte]
  · rw [Props.C12.C12_timestamp2_partial E md sec frac hf h1 hfr u rest]
    simp only [txt, W.text, ts_text]

theorem cell0_str (E : Ext) (typ md : Nat) (b : Bytes) (u : Bool) (rest : Bytes) (h : W.CellOK typ md u (.str b)) :
    cellLength (W.cell typ md (.str b) ++ rest) 0 typ md = .ok (W.cell typ md (.str b)).length ∧
    cellBytes E (W.cell typ md (.str b) ++ rest) 0 typ md u
      = .ok (txt E md (.str b), (W.cell typ md (.str b)).length) := by
  have hlen := Props.C13.C13_lengths typ md b rest h
  refine ⟨hlen, ?_⟩
  have key : ∀ n, cellBytes E (W.cell typ md (.str b) ++ rest) 0 typ md u = .ok (b, n) → (typ ≠ 17 ∧ typ ≠ 18) →
      cellBytes E (W.cell typ md (.str b) ++ rest) 0 typ md u = .ok (b, (W.cell typ md (.str b)).length) := by
    intro n hb ht
    have := Props.C09.C09_len_agrees E _ 0 typ md u _ n b (by omega) hlen hb
    rw [this]; exact hb
  rcases h with ⟨ht, hmd, hb⟩ | ⟨rfl, maxLen, hm, rfl, hb⟩ | ⟨ht, h1, h4, hb⟩
  · exact key _ (Props.C13.C13_varchar E typ md ht hmd b hb u rest) (by omega)
  · exact key _ (Props.C13.C13_char E maxLen hm b hb u rest) (by omega)
  · exact key _ (Props.C13.C13_blob E typ md ht ⟨h1, h4⟩ b hb u rest) (by omega)

theorem cell0 (E : Ext) (typ md : Nat) (u : Bool) (v : W.CellVal) (h : W.CellOK typ md u v) (rest : Bytes) :
    cellLength (W.cell typ md v ++ rest) 0 typ md = .ok (W.cell typ md v).length ∧
    cellBytes E (W.cell typ md v ++ rest) 0 typ md u = .ok (txt E md v, (W.cell typ md v).length) := by
  cases v with
  | int w v => obtain rfl : u = false := h.2.1; exact cell0_int E typ md w v rest h
  | uint w n => obtain rfl : u = true := h.2.1; exact cell0_uint E typ md w n rest h
  | f32 b => exact cell0_f32 E typ md b u rest h
  | f64 b => exact cell0_f64 E typ md b u rest h
  | year b => exact cell0_year E typ md b u rest h
  | bit bs => exact cell0_bit E typ md bs u rest h
  | enum w n => exact cell0_enum E typ md w n u rest h
  | set w n => exact cell0_set E typ md w n u rest h
  | dec neg i f => exact cell0_dec E typ md neg i f u rest h
  | date y m d => exact cell0_date E typ md y m d u rest h
  | time neg hh m s => exact cell0_time E typ md neg hh m s u rest h
  | datetime y mo d hh mi s => exact cell0_datetime E typ md y mo d hh mi s u rest h
  | timestamp sec => exact cell0_timestamp E typ md sec u rest h
  | time2 neg hh m s frac => exact cell0_time2 E typ md neg hh m s frac u rest h
  | datetime2 y mo d hh mi s frac => exact cell0_datetime2 E typ md y mo d hh mi s frac u rest h
  | timestamp2 sec frac => exact cell0_timestamp2 E typ md sec frac u rest h
  | str b => exact cell0_str E typ md b u rest h
  | raw b => exact h.elim

/-- the uniform cell theorem at an arbitrary position -/
theorem cell_exact (E : Ext) (typ md : Nat) (u : Bool) (v : W.CellVal) (h : W.CellOK typ md u v) (pre rest : Bytes) :
    cellLength (pre ++ (W.cell typ md v ++ rest)) pre.length typ md = .ok (W.cell typ md v).length ∧
    cellBytes E (pre ++ (W.cell typ md v ++ rest)) pre.length typ md u = .ok (txt E md v, (W.cell typ md v).length) := by
  rw [cellLength_at, cellBytes_at]
  exact cell0 E typ md u v h rest

end C09R
end GV
