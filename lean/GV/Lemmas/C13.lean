import GV.Model.Rows
import GV.Spec.Cell
import GV.Lemmas.Dec
import GV.Lemmas.C10
/- helper lemmas for GV/Props/C13.lean -/
namespace GV
namespace C13
open Bytes M

/-! ### reading a length-prefixed string back -/

theorem slice_after (a b c : Bytes) (lo hi : Nat) (hlo : lo = a.length) (hhi : hi = lo + b.length) :
    Bytes.slice (a ++ (b ++ c)) lo hi = .ok b := by
  subst hlo hhi; exact slice_mid a b c

/-- one-byte prefix -/
theorem read_short (b rest : Bytes) (hb : b.length ≤ 255) :
    (do let x ← Bytes.get (W.lenPrefix 1 b ++ rest) 0
        let s ← Bytes.slice (W.lenPrefix 1 b ++ rest) (0 + 1) (0 + 1 + x.toNat)
        pure (s, x.toNat + 1) : Res (Bytes × Nat)) = .ok (b, 1 + b.length) := by
  have hx : (UInt8.ofNat (b.length % 256)).toNat = b.length := by
    rw [toNat_ofNat_mod]; omega
  simp only [W.lenPrefix, List.append_assoc]
  rw [get_head_ofLE]
  simp only [Res.ok_bind, hx]
  rw [slice_after (ofLE 1 b.length) b rest _ _ (by simp) (by simp)]
  simp [Nat.add_comm]

/-- two-byte prefix -/
theorem read_long (b rest : Bytes) (hb : b.length ≤ 65535) :
    (do let l ← leIdx (W.lenPrefix 2 b ++ rest) 0 2
        let s ← Bytes.slice (W.lenPrefix 2 b ++ rest) (0 + 2) (0 + 2 + l)
        pure (s, l + 2) : Res (Bytes × Nat)) = .ok (b, 2 + b.length) := by
  have hx : b.length % 256 ^ 2 = b.length := by
    apply Nat.mod_eq_of_lt; simp only [Nat.reducePow]; omega
  simp only [W.lenPrefix, List.append_assoc]
  rw [leIdx_head]
  simp only [Res.ok_bind, hx]
  rw [slice_after (ofLE 2 b.length) b rest _ _ (by simp) (by simp)]
  simp [Nat.add_comm]

/-- w-byte prefix, w ∈ 1..4 (blob family) -/
theorem read_blob (w : Nat) (b rest : Bytes) (hw : 1 ≤ w ∧ w ≤ 4) (hb : b.length < 256 ^ w) :
    (do let l ← blobLen (W.lenPrefix w b ++ rest) 0 w
        let s ← Bytes.slice (W.lenPrefix w b ++ rest) (0 + w) (0 + w + l)
        pure (s, l + w) : Res (Bytes × Nat)) = .ok (b, w + b.length) := by
  have hw' : w = 1 ∨ w = 2 ∨ w = 3 ∨ w = 4 := by omega
  simp only [blobLen, hw', if_true, W.lenPrefix, List.append_assoc]
  rw [leIdx_head]
  simp only [Res.ok_bind, Nat.mod_eq_of_lt hb]
  rw [slice_after (ofLE w b.length) b rest _ _ (by simp) (by simp)]
  simp [Nat.add_comm]

/-! ### the length rule on the same inputs -/

theorem len_short (b rest : Bytes) (hb : b.length ≤ 255) :
    (do let x ← Bytes.get (W.lenPrefix 1 b ++ rest) 0
        pure (x.toNat + 1) : Res Nat) = .ok (W.lenPrefix 1 b).length := by
  have hx : (UInt8.ofNat (b.length % 256)).toNat = b.length := by
    rw [toNat_ofNat_mod]; omega
  simp only [W.lenPrefix, List.append_assoc]
  rw [get_head_ofLE]
  simp [hx, Nat.add_comm]

theorem len_long (b rest : Bytes) (hb : b.length ≤ 65535) :
    (do let l ← leIdx (W.lenPrefix 2 b ++ rest) 0 2
        pure (l + 2) : Res Nat) = .ok (W.lenPrefix 2 b).length := by
  have hx : b.length % 256 ^ 2 = b.length := by
    apply Nat.mod_eq_of_lt; simp only [Nat.reducePow]; omega
  simp only [W.lenPrefix, List.append_assoc]
  rw [leIdx_head]
  simp [hx, Nat.add_comm]

theorem len_blob (w : Nat) (b rest : Bytes) (hw : 1 ≤ w ∧ w ≤ 4) (hb : b.length < 256 ^ w) :
    (do let l ← blobLen (W.lenPrefix w b ++ rest) 0 w
        pure (w + l) : Res Nat) = .ok (W.lenPrefix w b).length := by
  have hw' : w = 1 ∨ w = 2 ∨ w = 3 ∨ w = 4 := by omega
  simp only [blobLen, hw', if_true, W.lenPrefix, List.append_assoc]
  rw [leIdx_head]
  simp [Nat.mod_eq_of_lt hb]

/-! ### the branch of `cellBytes` / `cellLength` taken for the string-like type codes -/

theorem cellBytes_varchar (E : Ext) (data : Bytes) (typ md : Nat) (u : Bool) (ht : typ = 15 ∨ typ = 253) :
    cellBytes E data 0 typ md u =
      if md > 255 then do
        let l ← leIdx data 0 2
        let s ← data.slice (0 + 2) (0 + 2 + l)
        pure (s, l + 2)
      else (do
        let b ← data.get 0
        let s ← data.slice (0 + 1) (0 + 1 + b.toNat)
        pure (s, b.toNat + 1)) := by
  unfold cellBytes
  rcases ht with rfl | rfl <;> simp

theorem cellBytes_char (E : Ext) (data : Bytes) (md : Nat) (u : Bool)
    (h7 : md / 256 ≠ 247) (h8 : md / 256 ≠ 248) :
    cellBytes E data 0 254 md u =
      if stringMax md > 255 then do
        let l ← leIdx data 0 2
        let s ← data.slice (0 + 2) (0 + 2 + l)
        pure (s, l + 2)
      else (do
        let b ← data.get 0
        let s ← data.slice (0 + 1) (0 + 1 + b.toNat)
        pure (s, b.toNat + 1)) := by
  unfold cellBytes
  simp [h7, h8]

theorem cellBytes_blob (E : Ext) (data : Bytes) (typ md : Nat) (u : Bool)
    (ht : typ = 249 ∨ typ = 250 ∨ typ = 251 ∨ typ = 252 ∨ typ = 255) :
    cellBytes E data 0 typ md u = (do
      let l ← blobLen data 0 md
      let s ← data.slice (0 + md) (0 + md + l)
      pure (s, l + md)) := by
  unfold cellBytes
  rcases ht with rfl | rfl | rfl | rfl | rfl <;> simp

theorem cellLength_varchar (data : Bytes) (typ md : Nat) (ht : typ = 15 ∨ typ = 253) :
    cellLength data 0 typ md =
      if md > 255 then do let l ← leIdx data 0 2; pure (l + 2)
      else (do let b ← data.get 0; pure (b.toNat + 1)) := by
  unfold cellLength
  rcases ht with rfl | rfl <;> simp [lookup, Facts.cellLengthFixed]

theorem cellLength_char (data : Bytes) (md : Nat) (h7 : md / 256 ≠ 247) (h8 : md / 256 ≠ 248) :
    cellLength data 0 254 md =
      if stringMax md > 255 then do let l ← leIdx data 0 2; pure (l + 2)
      else (do let b ← data.get 0; pure (b.toNat + 1)) := by
  unfold cellLength
  simp [lookup, Facts.cellLengthFixed, h7, h8]

theorem cellLength_blob (data : Bytes) (typ md : Nat)
    (ht : typ = 249 ∨ typ = 250 ∨ typ = 251 ∨ typ = 252 ∨ typ = 255) :
    cellLength data 0 typ md = (do let l ← blobLen data 0 md; pure (md + l)) := by
  unfold cellLength
  rcases ht with rfl | rfl | rfl | rfl | rfl <;> simp [lookup, Facts.cellLengthFixed]

/-! ### MySQL's CHAR metadata packing round-trips through the decoder's `stringMax` -/

theorem charMd_facts : ∀ m, m < 1024 →
    let md := ((254 ^^^ ((m &&& 0x300) >>> 4)) <<< 8) ||| (m &&& 0xff)
    stringMax md = m ∧ md / 256 ≠ 247 ∧ md / 256 ≠ 248 ∧
      ((((md / 16) &&& 0x300) ^^^ 0x300) + (md &&& 0xff)) = m := by
  decide +kernel

end C13
end GV
