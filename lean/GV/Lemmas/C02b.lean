import GV.Lemmas.C04b
/-
  Definitions and helper lemmas for GV/Props/C02b.lean (C02 at the byte level, as corollaries of the exact-outcome
  theorem `GV.C04b.outcome_lands` and of byte-level fidelity).  Everything here is Spec-side list reasoning about
  `specOut`, `W.expectedAux` and `W.layoutAux`; the parser is never unfolded.
  The first section holds the definitions the property statements are made of.
-/
namespace GV
namespace C02b
open Bytes M GV.Props.C01 GV.Props.C01b GV.C01c GV.C01d GV.C04b

/-! ### the statements' vocabulary -/

/-- the laid-out event is a commit point -/
def isCommit (x : W.Laid) : Bool :=
  match x.tag with
  | .commit _ => true
  | _ => false

/-- what a unit of the history must be delivered as, labels aside: commit timestamp and changes of each transaction it
    gives rise to.  Independent of the configuration and of where the unit is laid out. -/
def unitGroups : W.Unit → List (Nat × List W.Change)
  | .tx _ cs close ts => [(ts, W.delivered close cs)]
  | .ddl s => [(s.ts, [.stmt s])]
  | .autoRows c => [(c.ts, [.rows c])]
  | .stmtDML s => [(s.ts, [.stmt s])]
  | _ => []

/-- the label-free content of an expected transaction -/
def content (t : W.ETx) : Nat × List W.Change := (t.ts, t.changes)

/-- the label-free content of a delivered transaction -/
def txContent (tx : Transaction) : Nat × List StreamEvent := (tx.timestamp, tx.events)

/-- the content a group must be delivered as -/
def groupTx (E : Ext) (g : Nat × List W.Change) : Nat × List StreamEvent := (g.1, g.2.map (seOfChange E))

/-- units without a meaning for delivery -/
def Ignorable : W.Unit → Prop
  | .gtid _ _ => True
  | .anonGtid => True
  | .prevGtids _ => True
  | .heartbeat => True
  | .unknownEvent _ _ => True
  | .unknownStmt _ => True
  | _ => False

theorem txContent_toTx (E : Ext) (t : W.ETx) : txContent (toTx E t) = groupTx E (content t) := rfl

/-! ### `specOut`, in terms of the expected transactions -/

/-- the number of expected transactions is the number of commit points -/
theorem expectedAux_length : ∀ (l : List W.Laid) (cur : W.Pos), (W.expectedAux l cur).length = l.countP isCommit
  | [], _ => rfl
  | x :: l, cur => by
    cases hx : x.tag <;> simp [W.expectedAux, hx, isCommit, expectedAux_length l]

/-- a handler that accepts everything: every commit point among the events that arrived is delivered -/
theorem specOut_acceptAll (E : Ext) (acc : Transaction → Bool) (hacc : ∀ tx, acc tx = true) (e : Bool) :
    ∀ (l : List W.Laid) (cur : W.Pos), specOut E acc e l cur =
      ⟨(W.expectedAux l cur).map (toTx E), (W.expectedAux l cur).map (toTx E), posOf (W.endPosAux l cur), e, false⟩
  | [], _ => rfl
  | x :: l, cur => by
    cases hx : x.tag <;> simp [specOut, W.expectedAux, W.endPosAux, hx, hacc, specOut_acceptAll E acc hacc e l]

/-- any handler: the calls are the first n transactions of the events that arrived — never more than their commit
    points —, the accepted ones the first n or n - 1 of them; an error ending is reported as an error -/
theorem specOut_calls (E : Ext) (acc : Transaction → Bool) (e : Bool) : ∀ (l : List W.Laid) (cur : W.Pos),
    ∃ n, n ≤ (W.expectedAux l cur).length ∧
      (specOut E acc e l cur).calls = ((W.expectedAux l cur).take n).map (toTx E) ∧
      (specOut E acc e l cur).accepted <+: (specOut E acc e l cur).calls ∧
      (specOut E acc e l cur).crash = false ∧ (e = true → (specOut E acc e l cur).err = true)
  | [], cur => ⟨0, Nat.le_refl _, rfl, List.prefix_refl _, rfl, fun he => he⟩
  | x :: l, cur => by
    have other : ∀ cur', specOut E acc e (x :: l) cur = specOut E acc e l cur' →
        W.expectedAux (x :: l) cur = W.expectedAux l cur' →
        ∃ n, n ≤ (W.expectedAux (x :: l) cur).length ∧
          (specOut E acc e (x :: l) cur).calls = ((W.expectedAux (x :: l) cur).take n).map (toTx E) ∧
          (specOut E acc e (x :: l) cur).accepted <+: (specOut E acc e (x :: l) cur).calls ∧
          (specOut E acc e (x :: l) cur).crash = false ∧ (e = true → (specOut E acc e (x :: l) cur).err = true) := by
      intro cur' h1 h2
      rw [h1, h2]
      exact specOut_calls E acc e l cur'
    cases hx : x.tag with
    | commit cs =>
      have hexp : W.expectedAux (x :: l) cur
          = ⟨cur, ⟨x.file, x.next⟩, x.ts, cs⟩ :: W.expectedAux l ⟨x.file, x.next⟩ := by simp [W.expectedAux, hx]
      cases ha : acc (toTx E ⟨cur, ⟨x.file, x.next⟩, x.ts, cs⟩) with
      | false =>
        have hs : specOut E acc e (x :: l) cur
            = ⟨[toTx E ⟨cur, ⟨x.file, x.next⟩, x.ts, cs⟩], [], posOf cur, true, false⟩ := by
          simp [specOut, hx, ha]
        rw [hs, hexp]
        exact ⟨1, by simp, by simp, List.nil_prefix, rfl, fun _ => rfl⟩
      | true =>
        obtain ⟨n, h1, h2, h3, h4, h5⟩ := specOut_calls E acc e l ⟨x.file, x.next⟩
        have hs : specOut E acc e (x :: l) cur
            = { specOut E acc e l ⟨x.file, x.next⟩ with
                calls := toTx E ⟨cur, ⟨x.file, x.next⟩, x.ts, cs⟩ :: (specOut E acc e l ⟨x.file, x.next⟩).calls,
                accepted := toTx E ⟨cur, ⟨x.file, x.next⟩, x.ts, cs⟩ :: (specOut E acc e l ⟨x.file, x.next⟩).accepted } := by
          simp [specOut, hx, ha]
        rw [hs, hexp]
        refine ⟨n + 1, by simp [h1], by simp [h2], ?_, h4, h5⟩
        exact List.cons_prefix_cons.mpr ⟨rfl, h3⟩
    | rotateTo f => exact other ⟨f, 4⟩ (by simp [specOut, hx]) (by simp [W.expectedAux, hx])
    | none => exact other cur (by simp [specOut, hx]) (by simp [W.expectedAux, hx])
    | stopThenRotateTo f => exact other cur (by simp [specOut, hx]) (by simp [W.expectedAux, hx])
    | fileHead => exact other cur (by simp [specOut, hx]) (by simp [W.expectedAux, hx])

/-- reading further never changes, moves or repeats what was delivered: the calls over a shorter prefix of the events
    are a prefix of the calls over a longer one (same handler, whatever the two endings) -/
theorem specOut_calls_mono (E : Ext) (acc : Transaction → Bool) (e e' : Bool) : ∀ (l : List W.Laid) (cur : W.Pos)
    (m m' : Nat), m ≤ m' → (specOut E acc e (l.take m) cur).calls <+: (specOut E acc e' (l.take m') cur).calls
  | [], _, _, _, _ => by simp [specOut]
  | x :: l, cur, 0, _, _ => by simp [specOut]
  | x :: l, cur, m + 1, 0, h => by omega
  | x :: l, cur, m + 1, m' + 1, h => by
    have hm : m ≤ m' := by omega
    rw [List.take_succ_cons, List.take_succ_cons]
    cases hx : x.tag with
    | commit cs =>
      cases ha : acc (toTx E ⟨cur, ⟨x.file, x.next⟩, x.ts, cs⟩) with
      | false => simp [specOut, hx, ha]
      | true =>
        simp only [specOut, hx, ha, if_true]
        exact List.cons_prefix_cons.mpr ⟨rfl, specOut_calls_mono E acc e e' l _ m m' hm⟩
    | rotateTo f => simpa [specOut, hx] using specOut_calls_mono E acc e e' l _ m m' hm
    | none => simpa [specOut, hx] using specOut_calls_mono E acc e e' l _ m m' hm
    | stopThenRotateTo f => simpa [specOut, hx] using specOut_calls_mono E acc e e' l _ m m' hm
    | fileHead => simpa [specOut, hx] using specOut_calls_mono E acc e e' l _ m m' hm

/-- the transactions of a shorter consumed prefix are a prefix of those of a longer one -/
theorem expectedAux_take_mono (l : List W.Laid) (cur : W.Pos) (m m' : Nat) (h : m ≤ m') :
    W.expectedAux (l.take m) cur <+: W.expectedAux (l.take m') cur := by
  have h1 := (expectedAux_take (l.take m') m cur).1
  rw [List.take_take, Nat.min_eq_left h] at h1
  rw [h1]
  exact List.take_prefix _ _

theorem doneCount_mono (cfg : W.Cfg) (h : W.History) (p : W.Pos) (m m' : Nat) (hm : m ≤ m') :
    doneCount cfg h p m ≤ doneCount cfg h p m' :=
  (expectedAux_take_mono (served cfg h p) p m m' hm).length_le

theorem doneCount_le (cfg : W.Cfg) (h : W.History) (p : W.Pos) (m : Nat) :
    doneCount cfg h p m ≤ (W.expected cfg h p).length := by
  have := congrArg List.length (expected_split cfg h p m).1
  rw [List.length_take] at this
  unfold doneCount
  omega

/-! ### the grouping is a function of the units alone -/

/-- timestamp and changes of the commit points among abstract events -/
def commitGroups (es : List W.AEv) : List (Nat × List W.Change) :=
  es.filterMap fun e => match e.tag with
    | .commit cs => some (e.ts, cs)
    | _ => none

theorem commitGroups_append (a b : List W.AEv) : commitGroups (a ++ b) = commitGroups a ++ commitGroups b :=
  List.filterMap_append

/-- laying events out (whatever the configuration, the file, the offset) keeps the commit points, their order, their
    timestamps and their changes -/
theorem expectedAux_layoutAux (cfg : W.Cfg) : ∀ (es : List W.AEv) (f : Bytes) (o : Nat) (cur : W.Pos),
    (W.expectedAux (W.layoutAux cfg es f o) cur).map content = commitGroups es
  | [], _, _, _ => rfl
  | a :: es, f, o, cur => by
    cases hr : rotOf a.tag with
    | none =>
      rw [layoutAux_plain _ _ _ _ _ hr]
      obtain ⟨typ, body, ts, tag, us⟩ := a
      cases tag <;> simp [rotOf] at hr <;>
        simp [W.expectedAux, hereOf, laidTag, commitGroups, content] <;>
        exact expectedAux_layoutAux cfg es f _ _
    | some g =>
      rw [layoutAux_rot _ _ _ _ _ g hr]
      obtain ⟨typ, body, ts, tag, us⟩ := a
      cases tag <;> simp [rotOf] at hr <;>
        simp [W.expectedAux, hereOf, laidTag, fakeR, fdeL, commitGroups] <;>
        exact expectedAux_layoutAux cfg es g _ _

theorem commitGroups_changes (cfg : W.Cfg) (cs : List W.Change) : commitGroups (cs.flatMap (W.changeEvs cfg)) = [] := by
  unfold commitGroups
  rw [List.filterMap_eq_nil_iff]
  intro x hx
  obtain ⟨c, _, hc⟩ := List.mem_flatMap.mp hx
  cases c with
  | stmt s =>
    simp only [W.changeEvs, List.mem_cons, List.not_mem_nil, or_false] at hc
    subst hc; rfl
  | rows c =>
    simp only [W.changeEvs, List.mem_append, List.mem_cons, List.not_mem_nil, or_false] at hc
    rcases hc with hc | rfl
    · split at hc
      · simp only [List.mem_cons, List.not_mem_nil, or_false] at hc
        subst hc; rfl
      · cases hc
    · rfl

theorem commitGroups_markStart (es : List W.AEv) : commitGroups (W.markStart es) = commitGroups es := by
  cases es <;> rfl

/-- the commit points of a unit's events -/
theorem commitGroups_unit (cfg : W.Cfg) (u : W.Unit) : commitGroups (W.unitEvs cfg u) = unitGroups u := by
  cases u with
  | tx b cs close ts =>
    simp only [W.unitEvs]
    rw [commitGroups_markStart, commitGroups_append, commitGroups_append, commitGroups_changes]
    cases close <;> rfl
  | autoRows c =>
    simp only [W.unitEvs]
    rw [commitGroups_markStart]
    cases c.announce <;> rfl
  | _ => rfl

theorem commitGroups_units (cfg : W.Cfg) : ∀ (us : List W.Unit),
    commitGroups (us.flatMap (W.unitEvs cfg)) = us.flatMap unitGroups
  | [] => rfl
  | u :: us => by
    rw [List.flatMap_cons, List.flatMap_cons, commitGroups_append, commitGroups_unit, commitGroups_units cfg us]

/-- from the head of the log: timestamps and changes of the expected transactions are those of the units, in order -/
theorem expected_groups_head (cfg : W.Cfg) (h : W.History) :
    (W.expected cfg h ⟨W.firstFile, 4⟩).map content = h.flatMap unitGroups := by
  unfold W.expected
  rw [fromPos_head, layout_eq']
  have : ∀ l, W.expectedAux (fdeL cfg W.firstFile :: l) ⟨W.firstFile, 4⟩ = W.expectedAux l ⟨W.firstFile, 4⟩ := by
    intro l; simp [W.expectedAux, fdeL]
  rw [this, expectedAux_layoutAux, commitGroups_units]

/-- from any position where the master starts serving at a unit or at a file head -/
theorem expected_groups_lands (cfg : W.Cfg) (h : W.History) (p : W.Pos) (hl : Lands cfg h p) :
    (W.expected cfg h p).map content = (unitsFrom cfg h p).flatMap unitGroups := by
  rcases served_shape cfg h p hl with hnil | ⟨us₁, us₂, _, hus, hcase⟩
  · have h1 : W.expected cfg h p = [] := by
      show W.expectedAux (served cfg h p) p = []
      rw [hnil]; rfl
    have h2 : unitsFrom cfg h p = [] := by
      unfold unitsFrom
      have : W.fromPos (W.layout cfg h) p = [] := hnil
      rw [this]
      simp
    rw [h1, h2]; rfl
  · rw [hus]
    show (W.expectedAux (served cfg h p) p).map content = _
    rcases hcase with ⟨_, _, o, _, _, hlay⟩ | hlay
    · rw [hlay, expectedAux_layoutAux, commitGroups_units]
    · rw [hlay]
      have : ∀ l, W.expectedAux (fdeL cfg p.file :: l) p = W.expectedAux l p := by
        intro l; simp [W.expectedAux, fdeL]
      rw [this, expectedAux_layoutAux, commitGroups_units]

theorem unitGroups_ignorable (u : W.Unit) (hu : Ignorable u) : unitGroups u = [] := by
  cases u <;> first | rfl | exact absurd hu (by simp [Ignorable])

theorem histRows_ignorable (h₁ h₂ : W.History) (u : W.Unit) (hu : Ignorable u) :
    histRows (h₁ ++ u :: h₂) = histRows (h₁ ++ h₂) := by
  have : unitRows u = [] := by
    cases u <;> first | rfl | exact absurd hu (by simp [Ignorable])
  simp [histRows, this]

end C02b
end GV
