import GV.Base.Res
import GV.Base.Bytes
import GV.Base.Dec
import GV.Base.Go
import GV.Generated.Facts
import GV.Model.Header
